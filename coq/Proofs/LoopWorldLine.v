(* The directed-loop update closes into a consistent periodic world line (C06, C04).

   Invariant.  Let (p0, e1) be the leg the loop started on and (pos, e) the leg it is about to enter.
   The configuration W obtained from the current one by toggling e at pos and toggling e1 at p0
   is a consistent periodic world line.  One vertex visit (toggle e, toggle the exit x, move to the
   other end (q, e') of the world-line segment that starts at x, writing the p = 0 state when the
   segment crosses the time boundary) replaces W by W with BOTH ENDS OF ONE SEGMENT toggled, which
   keeps consistency.  When the loop closes, W is the final configuration itself. *)
From Coq Require Import List QArith ZArith NArith Bool Arith Lia.
From QmcV Require Import Model.Prog Model.Sse Model.Nav Model.Cluster Model.ClusterValid Model.Loop
     Proofs.ProgLemmas Proofs.HamProofs Proofs.DiagonalProofs Proofs.WorldLine Proofs.LoopProofs Proofs.ChainLemmas Proofs.FastOpsLemmas Proofs.ProgSafety.
Import ListNotations.
Local Open Scope nat_scope.

(* ================================================================== *)
(* 1. one operator with one leg toggled                                *)
Definition xorv (s : state) (v : nat) : state := set_nth s v (negb (nth v s false)).

Definition tog (o : op) (l : nat * side) : op :=
  let '(i, o') := adjust (o_in o) (o_out o) l in mkOp (o_vars o) (o_bond o) i o' (o_const o).

Lemma tog_vars o l : o_vars (tog o l) = o_vars o.
Proof. unfold tog. destruct (adjust _ _ l). reflexivity. Qed.

Lemma tog_out o k : tog o (k, Outputs) = mkOp (o_vars o) (o_bond o) (o_in o) (toggle (o_out o) k) (o_const o).
Proof. reflexivity. Qed.
Lemma tog_in o k : tog o (k, Inputs) = mkOp (o_vars o) (o_bond o) (toggle (o_in o) k) (o_out o) (o_const o).
Proof. reflexivity. Qed.

Lemma pass_through_tog o e x : pass_through o e x = tog (tog o e) x.
Proof.
  unfold pass_through, tog. destruct (adjust (o_in o) (o_out o) e) as [i1 o1]. cbn [o_in o_out o_vars o_bond o_const].
  destruct (adjust i1 o1 x) as [i2 o2]. reflexivity.
Qed.

Lemma tog_comm o l m : tog (tog o l) m = tog (tog o m) l.
Proof.
  destruct l as [k1 [|]], m as [k2 [|]]; unfold tog, adjust; cbn [o_in o_out o_vars o_bond o_const snd fst];
    try reflexivity; now rewrite toggle_comm.
Qed.

Lemma tog_tog o l : tog (tog o l) l = o.
Proof.
  destruct o as [vs b i ou c]. destruct l as [k [|]]; unfold tog, adjust; cbn [o_in o_out o_vars o_bond o_const snd fst];
    now rewrite toggle_toggle.
Qed.

(* list facts with distinct variables *)
Lemma nodupb_NoDup l : nodupb l = true -> NoDup l.
Proof.
  induction l as [|x r IH]; cbn [nodupb]; intros H; constructor.
  - apply andb_true_iff in H. destruct H as [H _]. apply negb_true_iff in H. intros Hin.
    assert (existsb (Nat.eqb x) r = true) by (apply existsb_exists; exists x; split; [exact Hin|apply Nat.eqb_refl]).
    congruence.
  - apply IH. apply andb_true_iff in H. tauto.
Qed.

Lemma nth_xorv_same s v : v < length s -> nth v (xorv s v) false = negb (nth v s false).
Proof. intros H. unfold xorv. now rewrite nth_set_nth_eq. Qed.
Lemma nth_xorv_other s v w : v <> w -> nth w (xorv s v) false = nth w s false.
Proof. intros H. unfold xorv. now rewrite nth_set_nth_neq. Qed.
Lemma xorv_length s v : length (xorv s v) = length s.
Proof. apply set_nth_length. Qed.
Lemma xorv_xorv s v : v < length s -> xorv (xorv s v) v = s.
Proof.
  intros H. unfold xorv. rewrite nth_set_nth_eq by exact H. rewrite negb_involutive.
  rewrite set_nth_set_nth. exact (WorldLine.set_nth_same s v false).
Qed.

Lemma read_vals_xorv s vs k v :
  NoDup vs -> nth_error vs k = Some v -> v < length s ->
  read_vals (xorv s v) vs = toggle (read_vals s vs) k.
Proof.
  revert k. induction vs as [|w vs IH]; intros k Hnd Hk Hv; [destruct k; discriminate|].
  inversion Hnd as [|? ? Hnin Hnd']; subst. destruct k as [|k]; cbn in Hk.
  - inversion Hk; subst w. unfold read_vals, toggle. cbn [map nth set_nth].
    rewrite nth_xorv_same by exact Hv. f_equal.
    apply map_ext_in. intros a Ha. apply nth_xorv_other. intros ->. contradiction.
  - unfold read_vals, toggle in *. cbn [map nth set_nth].
    assert (Hne : v <> w) by (intros ->; apply Hnin; eapply nth_error_In; eauto).
    rewrite nth_xorv_other by exact Hne. f_equal. now apply IH.
Qed.

Lemma write_vals_toggle s : forall vs outs k v,
  NoDup vs -> nth_error vs k = Some v -> length outs = length vs -> v < length s ->
  write_vals s vs (toggle outs k) = set_nth (write_vals s vs outs) v (negb (nth k outs false)).
Proof.
  intros vs. revert s. induction vs as [|w vs IH]; intros s outs k v Hnd Hk Hl Hv; [destruct k; discriminate|].
  inversion Hnd as [|? ? Hnin Hnd']; subst. destruct outs as [|b outs]; [discriminate|]. cbn in Hl.
  destruct k as [|k]; cbn in Hk.
  - inversion Hk; subst w. unfold toggle. cbn [set_nth nth write_vals].
    rewrite <- write_vals_set_other by exact Hnin. now rewrite set_nth_set_nth.
  - unfold toggle in *. cbn [set_nth nth write_vals].
    apply IH; [exact Hnd'|exact Hk|lia|now rewrite set_nth_length].
Qed.

Lemma write_vals_covers s : forall vs outs v x,
  In v vs -> length outs = length vs ->
  write_vals (set_nth s v x) vs outs = write_vals s vs outs.
Proof.
  intros vs. revert s. induction vs as [|w vs IH]; intros s outs v x Hin Hl; [contradiction|].
  destruct outs as [|b outs]; [discriminate|]. cbn in Hl. cbn [write_vals].
  destruct (Nat.eq_dec w v) as [->|Hne].
  - now rewrite set_nth_set_nth.
  - destruct Hin as [->|Hin]; [congruence|].
    rewrite set_nth_comm by congruence. apply IH; [exact Hin|lia].
Qed.

Lemma write_vals_length vs : forall st vals, length (write_vals st vs vals) = length st.
Proof.
  induction vs as [|v vs IH]; intros st [|b vals]; cbn [write_vals]; try reflexivity.
  rewrite IH. apply set_nth_length.
Qed.

Lemma nth_write_vals_at s : forall vs outs k v,
  NoDup vs -> nth_error vs k = Some v -> length outs = length vs -> v < length s ->
  nth v (write_vals s vs outs) false = nth k outs false.
Proof.
  intros vs. revert s. induction vs as [|w vs IH]; intros s outs k v Hnd Hk Hl Hv; [destruct k; discriminate|].
  inversion Hnd as [|? ? Hnin Hnd']; subst. destruct outs as [|b outs]; [discriminate|]. cbn in Hl.
  destruct k as [|k]; cbn in Hk; cbn [write_vals nth].
  - inversion Hk; subst w. rewrite write_vals_set_other by exact Hnin. rewrite nth_set_nth_eq; [reflexivity|].
    rewrite write_vals_length. exact Hv.
  - apply IH; [exact Hnd'|exact Hk|lia|now rewrite set_nth_length].
Qed.

(* well-formed operator: variables in range and distinct, one value per leg *)
Definition owf (n : nat) (o : op) : Prop :=
  (forall v, In v (o_vars o) -> v < n) /\ NoDup (o_vars o)
  /\ length (o_in o) = length (o_vars o) /\ length (o_out o) = length (o_vars o).

Lemma op_wellformed_owf n o : op_wellformed n o = true -> owf n o.
Proof.
  unfold op_wellformed. intros H. repeat (apply andb_true_iff in H; destruct H as [H ?]).
  repeat split.
  - intros v Hv. rewrite forallb_forall in H. apply Nat.ltb_lt. now apply H.
  - now apply nodupb_NoDup.
  - now apply Nat.eqb_eq.
  - now apply Nat.eqb_eq.
Qed.

Definition chk (s : state) (o : op) : bool :=
  bools_eqb (read_vals s (o_vars o)) (o_in o)
  && Nat.eqb (length (o_in o)) (length (o_vars o))
  && Nat.eqb (length (o_out o)) (length (o_vars o)).

Lemma check_line_cons s o r :
  check_line s (Some o :: r) = if chk s o then check_line (apply_op s o) r else None.
Proof. reflexivity. Qed.

(* toggling an output leg: same check, the variable leaves flipped *)
Lemma out_leg_step s o k v : owf (length s) o -> nth_error (o_vars o) k = Some v ->
  chk s (tog o (k, Outputs)) = chk s o
  /\ apply_op s (tog o (k, Outputs)) = xorv (apply_op s o) v.
Proof.
  intros (Hr & Hnd & Hli & Hlo) Hk. rewrite tog_out. split.
  - unfold chk. cbn [o_vars o_in o_out]. now rewrite toggle_length.
  - unfold apply_op. cbn [o_vars o_out].
    assert (Hv : v < length s) by (apply Hr; eapply nth_error_In; eauto).
    rewrite (write_vals_toggle s (o_vars o) (o_out o) k v Hnd Hk Hlo Hv).
    unfold xorv. f_equal. f_equal. symmetry. now apply nth_write_vals_at.
Qed.

Lemma bools_eqb_toggle a b k : length a = length b -> bools_eqb (toggle a k) (toggle b k) = bools_eqb a b.
Proof.
  revert b k. induction a as [|x a IH]; intros [|y b] k Hl; try discriminate; [reflexivity|].
  cbn in Hl. unfold toggle, bools_eqb in *. destruct k as [|k]; cbn [set_nth nth list_beq].
  - destruct x, y; reflexivity.
  - f_equal. apply IH. lia.
Qed.

(* toggling an input leg, met with the variable flipped: same check, same state afterwards *)
Lemma in_leg_step s o k v : owf (length s) o -> nth_error (o_vars o) k = Some v ->
  chk (xorv s v) (tog o (k, Inputs)) = chk s o
  /\ apply_op (xorv s v) (tog o (k, Inputs)) = apply_op s o.
Proof.
  intros (Hr & Hnd & Hli & Hlo) Hk. rewrite tog_in.
  assert (Hv : v < length s) by (apply Hr; eapply nth_error_In; eauto).
  split.
  - unfold chk. cbn [o_vars o_in o_out]. rewrite toggle_length.
    rewrite (read_vals_xorv s (o_vars o) k v Hnd Hk Hv).
    destruct (Nat.eqb_spec (length (o_in o)) (length (o_vars o))) as [E|E]; [|now rewrite !andb_false_r].
    rewrite bools_eqb_toggle; [reflexivity|]. unfold read_vals. rewrite map_length. now rewrite E.
  - unfold apply_op, xorv. cbn [o_vars o_out]. apply write_vals_covers; [eapply nth_error_In; eauto|exact Hlo].
Qed.

Lemma apply_op_length s o : length (apply_op s o) = length s.
Proof. unfold apply_op. apply write_vals_length. Qed.

(* the state walk keeps its length *)
Lemma check_line_length : forall sl s s', check_line s sl = Some s' -> length s' = length s.
Proof.
  induction sl as [|[o|] sl IH]; intros s s' H; cbn [check_line] in H.
  - now inversion H.
  - destruct (_ && _ && _)%bool; [|discriminate]. rewrite (IH _ _ H). apply apply_op_length.
  - now apply IH.
Qed.

(* ================================================================== *)
(* 2. both ends of one world-line segment toggled                      *)
Definition swf (n : nat) (sl : slots) : Prop := forall o, In (Some o) sl -> owf n o.

Lemma swf_app n a b : swf n (a ++ b) <-> swf n a /\ swf n b.
Proof.
  unfold swf. split.
  - intros H. split; intros o Ho; apply H; apply in_or_app; [now left|now right].
  - intros [Ha Hb] o Ho. apply in_app_or in Ho. destruct Ho; [now apply Ha|now apply Hb].
Qed.

Lemma untouched_app a b v : untouched (a ++ b) v <-> untouched a v /\ untouched b v.
Proof.
  unfold untouched. split.
  - intros H. split; intros o Ho; apply H; apply in_or_app; [now left|now right].
  - intros [Ha Hb] o Ho. apply in_app_or in Ho. destruct Ho; [now apply Ha|now apply Hb].
Qed.

Lemma nth_write_vals_notin vs : forall s outs v, ~ In v vs -> nth v (write_vals s vs outs) false = nth v s false.
Proof.
  induction vs as [|w vs IH]; intros s outs v Hv; [reflexivity|].
  destruct outs as [|b outs]; [reflexivity|]. cbn [write_vals].
  rewrite IH by (intros H; apply Hv; now right).
  apply nth_set_nth_neq. intros ->. apply Hv. now left.
Qed.

(* the walk over a stretch that does not touch v commutes with flipping v *)
Lemma check_line_xorv sl s v :
  untouched sl v ->
  check_line (xorv s v) sl = option_map (fun t => xorv t v) (check_line s sl).
Proof.
  intros Hu. unfold xorv at 1. rewrite check_line_set_free by exact Hu.
  destruct (check_line s sl) as [t|] eqn:E; [|reflexivity]. cbn [option_map]. f_equal.
  unfold xorv. f_equal. f_equal.
  (* v keeps its value along an untouched stretch *)
  clear -Hu E. revert s t E. induction sl as [|[o|] sl IH]; intros s t E; cbn [check_line] in E.
  - now inversion E.
  - destruct (_ && _ && _)%bool; [|discriminate].
    assert (Hu' : untouched sl v) by (intros o' Ho'; apply Hu; now right).
    rewrite <- (IH Hu' _ _ E). unfold apply_op. symmetry. apply nth_write_vals_notin. apply Hu. now left.
  - apply IH; [intros o' Ho'; apply Hu; now right|exact E].
Qed.

(* a segment inside the string: the out-leg of a, an untouched stretch, the in-leg of b *)
Lemma segment_inner st A a B b C ka kb v :
  swf (length st) (A ++ Some a :: B ++ Some b :: C) ->
  nth_error (o_vars a) ka = Some v -> nth_error (o_vars b) kb = Some v -> untouched B v ->
  wf st (A ++ Some a :: B ++ Some b :: C) = true ->
  wf st (A ++ Some (tog a (ka, Outputs)) :: B ++ Some (tog b (kb, Inputs)) :: C) = true.
Proof.
  intros Hs Hka Hkb HB Hwf. unfold wf in *.
  rewrite check_line_app in *. destruct (check_line st A) as [s1|] eqn:EA; [|discriminate].
  assert (L1 : length s1 = length st) by (eapply check_line_length; eauto).
  apply swf_app in Hs. destruct Hs as [_ Hs].
  assert (Ha : owf (length s1) a) by (rewrite L1; apply Hs; now left).
  rewrite check_line_cons in *.
  destruct (out_leg_step s1 a ka v Ha Hka) as [Hc Hap]. rewrite Hc, Hap.
  destruct (chk s1 a); [|discriminate].
  rewrite check_line_app in *. rewrite check_line_xorv by exact HB.
  destruct (check_line (apply_op s1 a) B) as [s2|] eqn:EB; [|discriminate]. cbn [option_map].
  assert (L2 : length s2 = length st).
  { rewrite (check_line_length _ _ _ EB), apply_op_length. exact L1. }
  assert (Hb : owf (length s2) b).
  { rewrite L2. apply Hs. right. apply in_or_app. right. now left. }
  rewrite check_line_cons in *.
  destruct (in_leg_step s2 b kb v Hb Hkb) as [Hc2 Hap2]. rewrite Hc2, Hap2. exact Hwf.
Qed.

Lemma bools_eqb_true a b : bools_eqb a b = true <-> a = b.
Proof. apply bools_eqb_eq. Qed.

(* a segment across the time boundary: b is the first operator on v, a the last; the p = 0 value flips *)
Lemma segment_wrap st A b B a C ka kb v :
  swf (length st) (A ++ Some b :: B ++ Some a :: C) ->
  nth_error (o_vars a) ka = Some v -> nth_error (o_vars b) kb = Some v ->
  untouched A v -> untouched C v -> v < length st ->
  wf st (A ++ Some b :: B ++ Some a :: C) = true ->
  wf (xorv st v) (A ++ Some (tog b (kb, Inputs)) :: B ++ Some (tog a (ka, Outputs)) :: C) = true.
Proof.
  intros Hs Hka Hkb HA HC Hv Hwf. unfold wf in *.
  rewrite check_line_app in *. rewrite check_line_xorv by exact HA.
  destruct (check_line st A) as [s1|] eqn:EA; [|discriminate]. cbn [option_map].
  assert (L1 : length s1 = length st) by (eapply check_line_length; eauto).
  apply swf_app in Hs. destruct Hs as [_ Hs].
  assert (Hb : owf (length s1) b) by (rewrite L1; apply Hs; now left).
  rewrite check_line_cons in *.
  destruct (in_leg_step s1 b kb v Hb Hkb) as [Hc Hap]. rewrite Hc, Hap.
  destruct (chk s1 b); [|discriminate].
  rewrite check_line_app in *.
  destruct (check_line (apply_op s1 b) B) as [s2|] eqn:EB; [|discriminate].
  assert (L2 : length s2 = length st).
  { rewrite (check_line_length _ _ _ EB), apply_op_length. exact L1. }
  assert (Ha : owf (length s2) a).
  { rewrite L2. apply Hs. right. apply in_or_app. right. now left. }
  rewrite check_line_cons in *.
  destruct (out_leg_step s2 a ka v Ha Hka) as [Hc2 Hap2]. rewrite Hc2, Hap2.
  destruct (chk s2 a); [|discriminate].
  rewrite check_line_xorv by exact HC.
  destruct (check_line (apply_op s2 a) C) as [s3|]; [|discriminate]. cbn [option_map].
  apply bools_eqb_true in Hwf. subst s3. apply bools_eqb_refl.
Qed.

(* the only operator on v: its out-leg and its in-leg are the two ends of the wrapping segment *)
Lemma segment_wrap_single st A a C k v :
  swf (length st) (A ++ Some a :: C) ->
  nth_error (o_vars a) k = Some v -> untouched A v -> untouched C v -> v < length st ->
  wf st (A ++ Some a :: C) = true ->
  wf (xorv st v) (A ++ Some (tog (tog a (k, Outputs)) (k, Inputs)) :: C) = true.
Proof.
  intros Hs Hk HA HC Hv Hwf. unfold wf in *.
  rewrite check_line_app in *. rewrite check_line_xorv by exact HA.
  destruct (check_line st A) as [s1|] eqn:EA; [|discriminate]. cbn [option_map].
  assert (L1 : length s1 = length st) by (eapply check_line_length; eauto).
  apply swf_app in Hs. destruct Hs as [_ Hs].
  assert (Ha : owf (length s1) a) by (rewrite L1; apply Hs; now left).
  assert (Ha' : owf (length s1) (tog a (k, Outputs))).
  { destruct Ha as (H1 & H2 & H3 & H4). rewrite tog_out. repeat split; cbn [o_vars o_in o_out]; auto.
    now rewrite toggle_length. }
  rewrite check_line_cons in *.
  assert (Hk' : nth_error (o_vars (tog a (k, Outputs))) k = Some v) by (now rewrite tog_vars).
  destruct (in_leg_step s1 (tog a (k, Outputs)) k v Ha' Hk') as [Hc Hap]. rewrite Hc, Hap.
  destruct (out_leg_step s1 a k v Ha Hk) as [Hc2 Hap2]. rewrite Hc2, Hap2.
  destruct (chk s1 a); [|discriminate].
  rewrite check_line_xorv by exact HC.
  destruct (check_line (apply_op s1 a) C) as [s3|]; [|discriminate]. cbn [option_map].
  apply bools_eqb_true in Hwf. subst s3. apply bools_eqb_refl.
Qed.

(* ================================================================== *)
(* 3. segments given by positions and by the navigation functions      *)
Lemma set_nth_at {A} (pre : list A) x y suf : set_nth (pre ++ x :: suf) (length pre) y = pre ++ y :: suf.
Proof. induction pre as [|h t IH]; cbn [app length set_nth]; [reflexivity|]. now rewrite IH. Qed.

Lemma set_nth_after {A} (pre : list A) x suf j y :
  set_nth (pre ++ x :: suf) (length pre + 1 + j) y = pre ++ x :: set_nth suf j y.
Proof.
  induction pre as [|h t IH]; cbn [app length set_nth plus].
  - reflexivity.
  - now rewrite IH.
Qed.

Lemma split_at {A} (l : list A) p x : nth_error l p = Some x ->
  l = firstn p l ++ x :: skipn (S p) l /\ length (firstn p l) = p.
Proof.
  revert p. induction l as [|h t IH]; intros [|p] H; cbn in H; try discriminate.
  - inversion H; subst. cbn. split; reflexivity.
  - destruct (IH p H) as [E L]. cbn [firstn skipn app length]. split; [f_equal; exact E|now rewrite L].
Qed.

Lemma nth_error_skipn {A} (l : list A) k j : nth_error (skipn k l) j = nth_error l (k + j).
Proof. revert l. induction k as [|k IH]; intros [|h t]; cbn; try reflexivity; [now destruct j|apply IH]. Qed.

Lemma nth_error_firstn_lt {A} (l : list A) k j : j < k -> nth_error (firstn k l) j = nth_error l j.
Proof.
  revert l j. induction k as [|k IH]; intros l j H; [lia|].
  destruct l as [|h t]; [now destruct j|]. destruct j as [|j]; cbn; [reflexivity|]. apply IH. lia.
Qed.

Lemma in_firstn_pos {A} (l : list A) k x : In x (firstn k l) -> exists j, j < k /\ nth_error l j = Some x.
Proof.
  intros H. apply In_nth_error in H. destruct H as [j Hj]. exists j.
  assert (j < length (firstn k l)) by (apply nth_error_Some; congruence).
  rewrite firstn_length in H. split; [lia|]. rewrite nth_error_firstn_lt in Hj by lia. exact Hj.
Qed.

Lemma in_skipn_pos {A} (l : list A) k x : In x (skipn k l) -> exists j, nth_error l (k + j) = Some x.
Proof.
  intros H. apply In_nth_error in H. destruct H as [j Hj]. exists j. now rewrite nth_error_skipn in Hj.
Qed.

Definition none_on (sl : slots) (v : nat) (lo hi : nat) : Prop :=
  forall r o, lo <= r -> r < hi -> nth_error sl r = Some (Some o) -> ~ In v (o_vars o).

Lemma swf_of_wellformed n sl : ops_wellformed n sl = true -> swf n sl.
Proof.
  unfold ops_wellformed. intros H o Ho. rewrite forallb_forall in H. specialize (H _ Ho). now apply op_wellformed_owf.
Qed.

(* an inner segment, by positions p < q *)
Lemma segment_inner_pos st sl p q a b ka kb v :
  swf (length st) sl -> p < q ->
  nth_error sl p = Some (Some a) -> nth_error sl q = Some (Some b) ->
  nth_error (o_vars a) ka = Some v -> nth_error (o_vars b) kb = Some v ->
  none_on sl v (S p) q ->
  wf st sl = true ->
  wf st (set_nth (set_nth sl p (Some (tog a (ka, Outputs)))) q (Some (tog b (kb, Inputs)))) = true.
Proof.
  intros Hs Hpq Hp Hq Hka Hkb Hnone Hwf.
  destruct (split_at sl p _ Hp) as [E1 L1].
  set (A := firstn p sl) in *. set (R := skipn (S p) sl) in *.
  assert (HqR : nth_error R (q - p - 1) = Some (Some b)).
  { unfold R. rewrite nth_error_skipn. replace (S p + (q - p - 1)) with q by lia. exact Hq. }
  destruct (split_at R _ _ HqR) as [E2 L2].
  set (B := firstn (q - p - 1) R) in *. set (C := skipn (S (q - p - 1)) R) in *.
  assert (Esl : sl = A ++ Some a :: B ++ Some b :: C) by (rewrite E1 at 1; now rewrite E2 at 1).
  assert (HB : untouched B v).
  { intros o Ho. apply in_firstn_pos in Ho. destruct Ho as [j [Hj Hn]]. unfold R in Hn. rewrite nth_error_skipn in Hn.
    apply (Hnone (S p + j) o); [lia|lia|exact Hn]. }
  rewrite Esl. rewrite <- L1 at 1. rewrite set_nth_at.
  replace q with (length A + 1 + length B) by (rewrite L1, L2; lia).
  rewrite set_nth_after, set_nth_at.
  apply (segment_inner st A a B b C ka kb v); try assumption; rewrite <- Esl; assumption.
Qed.

(* a wrapping segment, by positions q < p: b at q is the first operator on v, a at p the last *)
Lemma segment_wrap_pos st sl p q a b ka kb v :
  swf (length st) sl -> q < p ->
  nth_error sl p = Some (Some a) -> nth_error sl q = Some (Some b) ->
  nth_error (o_vars a) ka = Some v -> nth_error (o_vars b) kb = Some v ->
  none_on sl v 0 q -> none_on sl v (S p) (length sl) -> v < length st ->
  wf st sl = true ->
  wf (xorv st v) (set_nth (set_nth sl p (Some (tog a (ka, Outputs)))) q (Some (tog b (kb, Inputs)))) = true.
Proof.
  intros Hs Hqp Hp Hq Hka Hkb Hbefore Hafter Hv Hwf.
  rewrite set_nth_comm by lia.
  destruct (split_at sl q _ Hq) as [E1 L1].
  set (A := firstn q sl) in *. set (R := skipn (S q) sl) in *.
  assert (HpR : nth_error R (p - q - 1) = Some (Some a)).
  { unfold R. rewrite nth_error_skipn. replace (S q + (p - q - 1)) with p by lia. exact Hp. }
  destruct (split_at R _ _ HpR) as [E2 L2].
  set (B := firstn (p - q - 1) R) in *. set (C := skipn (S (p - q - 1)) R) in *.
  assert (Esl : sl = A ++ Some b :: B ++ Some a :: C) by (rewrite E1 at 1; now rewrite E2 at 1).
  assert (HA : untouched A v).
  { intros o Ho. apply in_firstn_pos in Ho. destruct Ho as [j [Hj Hn]]. apply (Hbefore j o); [lia|lia|exact Hn]. }
  assert (HC : untouched C v).
  { intros o Ho. apply in_skipn_pos in Ho. destruct Ho as [j Hn]. unfold R in Hn. rewrite nth_error_skipn in Hn.
    apply (Hafter (S q + (S (p - q - 1) + j)) o); [lia| |exact Hn].
    apply nth_error_Some. congruence. }
  rewrite Esl. rewrite <- L1 at 1. rewrite set_nth_at.
  replace p with (length A + 1 + length B) by (rewrite L1, L2; lia).
  rewrite set_nth_after, set_nth_at.
  apply (segment_wrap st A b B a C ka kb v); try assumption; rewrite <- Esl; assumption.
Qed.

Lemma segment_single_pos st sl p a k v :
  swf (length st) sl -> nth_error sl p = Some (Some a) -> nth_error (o_vars a) k = Some v ->
  none_on sl v 0 p -> none_on sl v (S p) (length sl) -> v < length st ->
  wf st sl = true ->
  wf (xorv st v) (set_nth sl p (Some (tog (tog a (k, Outputs)) (k, Inputs)))) = true.
Proof.
  intros Hs Hp Hk Hbefore Hafter Hv Hwf.
  destruct (split_at sl p _ Hp) as [E1 L1].
  set (A := firstn p sl) in *. set (C := skipn (S p) sl) in *.
  assert (HA : untouched A v).
  { intros o Ho. apply in_firstn_pos in Ho. destruct Ho as [j [Hj Hn]]. apply (Hbefore j o); [lia|lia|exact Hn]. }
  assert (HC : untouched C v).
  { intros o Ho. apply in_skipn_pos in Ho. destruct Ho as [j Hn].
    apply (Hafter (S p + j) o); [lia| |exact Hn]. apply nth_error_Some. congruence. }
  rewrite E1. rewrite <- L1 at 1. rewrite set_nth_at.
  apply (segment_wrap_single st A a C k v); try assumption; rewrite <- E1; assumption.
Qed.

(* ================================================================== *)
(* 4. toggling a leg of the operator at a position                     *)
Definition T (sl : slots) (p : nat) (l : nat * side) : slots :=
  match get_op sl p with Some o => set_nth sl p (Some (tog o l)) | None => sl end.

Lemma get_op_nth sl p o : get_op sl p = Some o <-> nth_error sl p = Some (Some o).
Proof. unfold get_op, g_get. destruct (nth_error sl p) as [[x|]|]; split; intros H; inversion H; reflexivity. Qed.

Lemma get_op_set_same sl p x : p < length sl -> get_op (set_nth sl p (Some x)) p = Some x.
Proof. intros H. apply get_op_nth. now apply nth_error_set_nth_eq. Qed.

Lemma get_op_set_other sl p q x : p <> q -> get_op (set_nth sl p x) q = get_op sl q.
Proof. intros H. unfold get_op, g_get. now rewrite nth_error_set_nth_neq. Qed.

Lemma get_op_lt sl p o : get_op sl p = Some o -> p < length sl.
Proof. intros H. apply get_op_nth in H. apply nth_error_Some. congruence. Qed.

Lemma T_get_same sl p l o : get_op sl p = Some o -> get_op (T sl p l) p = Some (tog o l).
Proof. intros H. unfold T. rewrite H. apply get_op_set_same. eapply get_op_lt; eauto. Qed.

Lemma T_get_other sl p q l : p <> q -> get_op (T sl p l) q = get_op sl q.
Proof. intros H. unfold T. destruct (get_op sl p); [now apply get_op_set_other|reflexivity]. Qed.

Lemma T_length sl p l : length (T sl p l) = length sl.
Proof. unfold T. destruct (get_op sl p); [apply set_nth_length|reflexivity]. Qed.

Lemma T_as_set sl p l o : get_op sl p = Some o -> T sl p l = set_nth sl p (Some (tog o l)).
Proof. intros H. unfold T. now rewrite H. Qed.

Lemma T_comm sl p q l m : T (T sl p l) q m = T (T sl q m) p l.
Proof.
  destruct (Nat.eq_dec p q) as [->|Hne].
  - destruct (get_op sl q) as [o|] eqn:E.
    + rewrite (T_as_set (T sl q l) q m (tog o l)) by (now apply T_get_same).
      rewrite (T_as_set (T sl q m) q l (tog o m)) by (now apply T_get_same).
      rewrite (T_as_set sl q l o E), (T_as_set sl q m o E), !set_nth_set_nth. now rewrite tog_comm.
    + unfold T. now rewrite E, E.
  - unfold T at 1 3. rewrite !T_get_other by congruence.
    destruct (get_op sl q) as [oq|] eqn:Eq, (get_op sl p) as [op|] eqn:Ep; unfold T; rewrite ?Ep, ?Eq; try reflexivity.
    apply set_nth_comm. congruence.
Qed.

Lemma T_T sl p l o : get_op sl p = Some o -> T (T sl p l) p l = sl.
Proof.
  intros H. rewrite (T_as_set (T sl p l) p l (tog o l)) by (now apply T_get_same).
  rewrite (T_as_set sl p l o H), set_nth_set_nth, tog_tog. apply FastOpsLemmas.set_nth_same. now apply get_op_nth.
Qed.

(* the skeleton, hence all navigation, is unchanged *)
Lemma ops_on_var_from_set_vars (sl : slots) v : forall k p o o',
  nth_error sl p = Some (Some o) -> o_vars o' = o_vars o ->
  g_ops_on_var_from o_vars k (set_nth sl p (Some o')) v = g_ops_on_var_from o_vars k sl v.
Proof.
  induction sl as [|s sl IH]; intros k p o o' Hp Hv; [destruct p; discriminate|].
  destruct p as [|p]; cbn in Hp; cbn [set_nth g_ops_on_var_from].
  - inversion Hp; subst s. now rewrite Hv.
  - destruct s as [a|]; [destruct (index_of v (o_vars a))|]; rewrite (IH _ _ _ _ Hp Hv); reflexivity.
Qed.

Lemma ops_on_var_T sl p l v : ops_on_var (T sl p l) v = ops_on_var sl v.
Proof.
  unfold T. destruct (get_op sl p) as [o|] eqn:E; [|reflexivity].
  apply get_op_nth in E. unfold ops_on_var, g_ops_on_var.
  apply (ops_on_var_from_set_vars sl v 0 p o); [exact E|apply tog_vars].
Qed.

Lemma nav_T sl p l q v :
  next_for_var (T sl p l) q v = next_for_var sl q v /\ prev_for_var (T sl p l) q v = prev_for_var sl q v
  /\ first_for_var (T sl p l) v = first_for_var sl v /\ last_for_var (T sl p l) v = last_for_var sl v.
Proof.
  unfold next_for_var, prev_for_var, first_for_var, last_for_var,
    g_next_for_var, g_prev_for_var, g_first_for_var, g_last_for_var.
  fold (ops_on_var (T sl p l) v). fold (ops_on_var sl v). rewrite ops_on_var_T. repeat split.
Qed.

Lemma owf_tog n o l : owf n o -> owf n (tog o l).
Proof.
  intros (H1 & H2 & H3 & H4). destruct l as [k [|]]; [rewrite tog_out|rewrite tog_in];
    repeat split; cbn [o_vars o_in o_out]; auto; now rewrite toggle_length.
Qed.

Lemma in_set_nth {A} (l : list A) p x y : In y (set_nth l p x) -> y = x \/ In y l.
Proof.
  revert p. induction l as [|h t IH]; intros p H; [destruct p; contradiction|].
  destruct p as [|p]; cbn in H.
  - destruct H as [<-|H]; [now left|right; now right].
  - destruct H as [<-|H]; [right; now left|]. destruct (IH _ H) as [->|Hin]; [now left|right; now right].
Qed.

Lemma swf_T n sl p l : swf n sl -> swf n (T sl p l).
Proof.
  intros H. unfold T. destruct (get_op sl p) as [o|] eqn:E; [|exact H].
  intros o' Ho'. apply in_set_nth in Ho'. destruct Ho' as [Eo|Hin]; [|now apply H].
  inversion Eo; subst. apply owf_tog. apply H. apply get_op_nth in E. eapply nth_error_In; eauto.
Qed.

(* ---------------- from the navigation functions to positions ---------------- *)
Lemma in_vars_Mvar sl r o v : nth_error sl r = Some (Some o) -> In v (o_vars o) -> exists k, Mvar sl v (r, k).
Proof.
  intros Ho Hin. destruct (NavProofs.index_of_in_some v (o_vars o) Hin) as [k Hk]. exists k, o. cbn. split; assumption.
Qed.

Lemma next_some_pos sl p v q kq : next_for_var sl p v = Some (q, kq) ->
  p < q /\ (exists b, nth_error sl q = Some (Some b) /\ nth_error (o_vars b) kq = Some v) /\ none_on sl v (S p) q.
Proof.
  intros H. pose proof (nav_v_spec true sl p v) as HS. cbn [nav_v] in HS. rewrite H in HS.
  cbn [is_nb dlt dle fst] in HS. destruct HS as ((b & Hb & Hi) & Hlt & Hmin). cbn [fst snd] in Hb, Hi.
  split; [exact Hlt|]. split; [exists b; split; [exact Hb|now apply index_of_nth_error]|].
  intros r o Hlo Hhi Hr Hin. destruct (in_vars_Mvar sl r o v Hr Hin) as [k HM].
  specialize (Hmin (r, k) HM). cbn [fst] in Hmin. lia.
Qed.

Lemma next_none_pos sl p v : next_for_var sl p v = None -> none_on sl v (S p) (length sl).
Proof.
  intros H. pose proof (nav_v_spec true sl p v) as HS. cbn [nav_v] in HS. rewrite H in HS.
  cbn [is_nb dle fst] in HS. intros r o Hlo Hhi Hr Hin. destruct (in_vars_Mvar sl r o v Hr Hin) as [k HM].
  specialize (HS (r, k) HM). cbn [fst] in HS. lia.
Qed.

Lemma prev_some_pos sl p v q kq : prev_for_var sl p v = Some (q, kq) ->
  q < p /\ (exists b, nth_error sl q = Some (Some b) /\ nth_error (o_vars b) kq = Some v) /\ none_on sl v (S q) p.
Proof.
  intros H. pose proof (nav_v_spec false sl p v) as HS. cbn [nav_v] in HS. rewrite H in HS.
  cbn [is_nb dlt dle fst] in HS. destruct HS as ((b & Hb & Hi) & Hlt & Hmax). cbn [fst snd] in Hb, Hi.
  split; [exact Hlt|]. split; [exists b; split; [exact Hb|now apply index_of_nth_error]|].
  intros r o Hlo Hhi Hr Hin. destruct (in_vars_Mvar sl r o v Hr Hin) as [k HM].
  specialize (Hmax (r, k) HM). cbn [fst] in Hmax. lia.
Qed.

Lemma prev_none_pos sl p v : prev_for_var sl p v = None -> none_on sl v 0 p.
Proof.
  intros H. pose proof (nav_v_spec false sl p v) as HS. cbn [nav_v] in HS. rewrite H in HS.
  cbn [is_nb dle fst] in HS. intros r o Hlo Hhi Hr Hin. destruct (in_vars_Mvar sl r o v Hr Hin) as [k HM].
  specialize (HS (r, k) HM). cbn [fst] in HS. lia.
Qed.

Lemma first_some_pos sl v q kq : first_for_var sl v = Some (q, kq) ->
  (exists b, nth_error sl q = Some (Some b) /\ nth_error (o_vars b) kq = Some v) /\ none_on sl v 0 q.
Proof.
  intros H. pose proof (end_v_spec true sl v) as HS. cbn [end_v] in HS. rewrite H in HS.
  cbn [is_end dle fst] in HS. destruct HS as ((b & Hb & Hi) & Hmin). cbn [fst snd] in Hb, Hi.
  split; [exists b; split; [exact Hb|now apply index_of_nth_error]|].
  intros r o Hlo Hhi Hr Hin. destruct (in_vars_Mvar sl r o v Hr Hin) as [k HM].
  specialize (Hmin (r, k) HM). cbn [fst] in Hmin. lia.
Qed.

Lemma last_some_pos sl v q kq : last_for_var sl v = Some (q, kq) ->
  (exists b, nth_error sl q = Some (Some b) /\ nth_error (o_vars b) kq = Some v) /\ none_on sl v (S q) (length sl).
Proof.
  intros H. pose proof (end_v_spec false sl v) as HS. cbn [end_v] in HS. rewrite H in HS.
  cbn [is_end dle fst] in HS. destruct HS as ((b & Hb & Hi) & Hmax). cbn [fst snd] in Hb, Hi.
  split; [exists b; split; [exact Hb|now apply index_of_nth_error]|].
  intros r o Hlo Hhi Hr Hin. destruct (in_vars_Mvar sl r o v Hr Hin) as [k HM].
  specialize (Hmax (r, k) HM). cbn [fst] in Hmax. lia.
Qed.

(* ================================================================== *)
(* 5. segments in terms of T and the navigation functions              *)
Lemma owf_index n o k1 k2 v : owf n o -> nth_error (o_vars o) k1 = Some v -> nth_error (o_vars o) k2 = Some v -> k1 = k2.
Proof.
  intros (_ & Hnd & _) H1 H2.
  pose proof (nth_error_index_of v (o_vars o) k1 Hnd H1). pose proof (nth_error_index_of v (o_vars o) k2 Hnd H2). congruence.
Qed.

Lemma swf_get n sl p o : swf n sl -> get_op sl p = Some o -> owf n o.
Proof. intros H E. apply H. apply get_op_nth in E. eapply nth_error_In; eauto. Qed.

Lemma seg_fwd_inner st sl p a ka v q kq :
  swf (length st) sl -> wf st sl = true -> get_op sl p = Some a -> nth_error (o_vars a) ka = Some v ->
  next_for_var sl p v = Some (q, kq) ->
  wf st (T (T sl p (ka, Outputs)) q (kq, Inputs)) = true.
Proof.
  intros Hs Hwf Ha Hka Hn. destruct (next_some_pos sl p v q kq Hn) as (Hlt & (b & Hb & Hkb) & Hnone).
  rewrite (T_as_set sl p _ a Ha).
  rewrite (T_as_set _ q _ b) by (rewrite get_op_set_other by lia; now apply get_op_nth).
  apply get_op_nth in Ha. now apply (segment_inner_pos st sl p q a b ka kq v).
Qed.

Lemma seg_bwd_inner st sl p a ka v q kq :
  swf (length st) sl -> wf st sl = true -> get_op sl p = Some a -> nth_error (o_vars a) ka = Some v ->
  prev_for_var sl p v = Some (q, kq) ->
  wf st (T (T sl p (ka, Inputs)) q (kq, Outputs)) = true.
Proof.
  intros Hs Hwf Ha Hka Hn. destruct (prev_some_pos sl p v q kq Hn) as (Hlt & (b & Hb & Hkb) & Hnone).
  rewrite (T_as_set sl p _ a Ha).
  rewrite (T_as_set _ q _ b) by (rewrite get_op_set_other by lia; now apply get_op_nth).
  rewrite set_nth_comm by lia.
  apply get_op_nth in Ha. now apply (segment_inner_pos st sl q p b a kq ka v).
Qed.

Lemma var_in_range (st : state) sl p a k v : swf (length st) sl -> get_op sl p = Some a -> nth_error (o_vars a) k = Some v -> v < length st.
Proof. intros Hs Ha Hk. destruct (swf_get _ _ _ _ Hs Ha) as (Hr & _). apply Hr. eapply nth_error_In; eauto. Qed.

Lemma seg_fwd_wrap st sl p a ka v q kq :
  swf (length st) sl -> wf st sl = true -> get_op sl p = Some a -> nth_error (o_vars a) ka = Some v ->
  next_for_var sl p v = None -> first_for_var sl v = Some (q, kq) ->
  wf (xorv st v) (T (T sl p (ka, Outputs)) q (kq, Inputs)) = true.
Proof.
  intros Hs Hwf Ha Hka Hn Hf.
  pose proof (next_none_pos sl p v Hn) as Hafter.
  destruct (first_some_pos sl v q kq Hf) as ((b & Hb & Hkb) & Hbefore).
  pose proof (var_in_range st sl p a ka v Hs Ha Hka) as Hv.
  pose proof Ha as Ha'. apply get_op_nth in Ha'.
  destruct (lt_eq_lt_dec q p) as [[Hlt|Heq]|Hgt].
  - rewrite (T_as_set sl p _ a Ha).
    rewrite (T_as_set _ q _ b) by (rewrite get_op_set_other by lia; now apply get_op_nth).
    now apply (segment_wrap_pos st sl p q a b ka kq v).
  - subst q. assert (b = a) by congruence. subst b.
    assert (kq = ka) by (eapply owf_index; [eapply swf_get; eauto|eauto|eauto]). subst kq.
    rewrite (T_as_set sl p _ a Ha). rewrite (T_as_set _ p _ (tog a (ka, Outputs))) by (apply get_op_set_same; eapply get_op_lt; eauto).
    rewrite set_nth_set_nth. now apply (segment_single_pos st sl p a ka v).
  - exfalso. apply (Hbefore p a); [lia|lia|exact Ha'|eapply nth_error_In; eauto].
Qed.

Lemma seg_bwd_wrap st sl p a ka v q kq :
  swf (length st) sl -> wf st sl = true -> get_op sl p = Some a -> nth_error (o_vars a) ka = Some v ->
  prev_for_var sl p v = None -> last_for_var sl v = Some (q, kq) ->
  wf (xorv st v) (T (T sl p (ka, Inputs)) q (kq, Outputs)) = true.
Proof.
  intros Hs Hwf Ha Hka Hn Hf.
  pose proof (prev_none_pos sl p v Hn) as Hbefore.
  destruct (last_some_pos sl v q kq Hf) as ((b & Hb & Hkb) & Hafter).
  pose proof (var_in_range st sl p a ka v Hs Ha Hka) as Hv.
  pose proof Ha as Ha'. apply get_op_nth in Ha'.
  destruct (lt_eq_lt_dec p q) as [[Hlt|Heq]|Hgt].
  - rewrite (T_as_set sl p _ a Ha).
    rewrite (T_as_set _ q _ b) by (rewrite get_op_set_other by lia; now apply get_op_nth).
    rewrite set_nth_comm by lia.
    now apply (segment_wrap_pos st sl q p b a kq ka v).
  - subst q. assert (b = a) by congruence. subst b.
    assert (kq = ka) by (eapply owf_index; [eapply swf_get; eauto|eauto|eauto]). subst kq.
    rewrite (T_as_set sl p _ a Ha). rewrite (T_as_set _ p _ (tog a (ka, Inputs))) by (apply get_op_set_same; eapply get_op_lt; eauto).
    rewrite set_nth_set_nth, tog_comm. now apply (segment_single_pos st sl p a ka v).
  - exfalso. apply (Hafter p a); [lia|eapply get_op_lt; eauto|exact Ha'|eapply nth_error_In; eauto].
Qed.

(* ---------------- the value next to the time boundary ---------------- *)
Lemma check_line_keeps sl v : untouched sl v -> forall s t, check_line s sl = Some t -> nth v t false = nth v s false.
Proof.
  intros Hu. induction sl as [|[o|] sl IH]; intros s t E; cbn [check_line] in E.
  - now inversion E.
  - destruct (_ && _ && _)%bool; [|discriminate].
    rewrite (IH (fun o' Ho' => Hu o' (or_intror Ho')) _ _ E). unfold apply_op.
    apply nth_write_vals_notin. apply Hu. now left.
  - apply (IH (fun o' Ho' => Hu o' (or_intror Ho')) _ _ E).
Qed.

Lemma nth_read_vals s vs k v : nth_error vs k = Some v -> nth k (read_vals s vs) false = nth v s false.
Proof.
  intros H. unfold read_vals. rewrite nth_indep with (d' := nth 0 s false) by (rewrite map_length; apply nth_error_Some; congruence).
  change (nth 0 s false) with ((fun w => nth w s false) 0). rewrite map_nth. f_equal. now apply nth_error_nth.
Qed.

Lemma last_out_is_state st sl p a k v :
  swf (length st) sl -> wf st sl = true -> nth_error sl p = Some (Some a) -> nth_error (o_vars a) k = Some v ->
  none_on sl v (S p) (length sl) -> nth k (o_out a) false = nth v st false.
Proof.
  intros Hs Hwf Hp Hk Hafter. destruct (split_at sl p _ Hp) as [E L].
  set (A := firstn p sl) in *. set (C := skipn (S p) sl) in *.
  assert (HC : untouched C v).
  { intros o Ho. apply in_skipn_pos in Ho. destruct Ho as [j Hn].
    apply (Hafter (S p + j) o); [lia| |exact Hn]. apply nth_error_Some. congruence. }
  unfold wf in Hwf. rewrite E, check_line_app in Hwf.
  destruct (check_line st A) as [s1|] eqn:EA; [|discriminate].
  rewrite check_line_cons in Hwf. destruct (chk s1 a); [|discriminate].
  destruct (check_line (apply_op s1 a) C) as [s3|] eqn:EC; [|discriminate].
  apply bools_eqb_true in Hwf. subst s3.
  rewrite (check_line_keeps C v HC _ _ EC). unfold apply_op.
  assert (Ha : owf (length st) a) by (apply Hs; eapply nth_error_In; eauto).
  destruct Ha as (Hr & Hnd & _ & Hlo). symmetry.
  apply nth_write_vals_at; [exact Hnd|exact Hk|exact Hlo|].
  rewrite (check_line_length _ _ _ EA). apply Hr. eapply nth_error_In; eauto.
Qed.

Lemma first_in_is_state st sl p a k v :
  swf (length st) sl -> wf st sl = true -> nth_error sl p = Some (Some a) -> nth_error (o_vars a) k = Some v ->
  none_on sl v 0 p -> nth k (o_in a) false = nth v st false.
Proof.
  intros Hs Hwf Hp Hk Hbefore. destruct (split_at sl p _ Hp) as [E L].
  set (A := firstn p sl) in *. set (C := skipn (S p) sl) in *.
  assert (HA : untouched A v).
  { intros o Ho. apply in_firstn_pos in Ho. destruct Ho as [j [Hj Hn]]. apply (Hbefore j o); [lia|lia|exact Hn]. }
  unfold wf in Hwf. rewrite E, check_line_app in Hwf.
  destruct (check_line st A) as [s1|] eqn:EA; [|discriminate].
  rewrite check_line_cons in Hwf. unfold chk in Hwf.
  destruct (bools_eqb (read_vals s1 (o_vars a)) (o_in a)) eqn:Er; [|discriminate].
  apply bools_eqb_true in Er. rewrite <- Er, (nth_read_vals s1 (o_vars a) k v Hk).
  now apply (check_line_keeps A v HA st s1).
Qed.

(* ================================================================== *)
(* 6. one vertex visit and the whole loop                              *)
Definition lv (o : op) (l : nat * side) : bool := nth (fst l) (if snd l then o_out o else o_in o) false.

Lemma nth_toggle_same l k : k < length l -> nth k (toggle l k) false = negb (nth k l false).
Proof. intros H. unfold toggle. now rewrite nth_set_nth_eq. Qed.
Lemma nth_toggle_other l j k : j <> k -> nth k (toggle l j) false = nth k l false.
Proof. intros H. unfold toggle. now rewrite nth_set_nth_neq. Qed.

Lemma lv_tog_same n o l : owf n o -> fst l < length (o_vars o) -> lv (tog o l) l = negb (lv o l).
Proof.
  intros (_ & _ & Hi & Ho) Hl. destruct l as [k [|]]; cbn [fst snd] in *; [rewrite tog_out|rewrite tog_in];
    unfold lv; cbn [fst snd o_in o_out]; apply nth_toggle_same; lia.
Qed.

Lemma lv_tog_other o l m : l <> m -> lv (tog o l) m = lv o m.
Proof.
  intros H. destruct l as [k [|]], m as [j [|]]; [rewrite tog_out|rewrite tog_out|rewrite tog_in|rewrite tog_in];
    unfold lv; cbn [fst snd o_in o_out]; try reflexivity; apply nth_toggle_other; intros ->; apply H; reflexivity.
Qed.

Definition leg_ok (sl : slots) (p : nat) (l : nat * side) : Prop :=
  exists o, get_op sl p = Some o /\ fst l < length (o_vars o).

Lemma leg_ok_T sl p l q m : leg_ok sl p l -> leg_ok (T sl q m) p l.
Proof.
  intros (o & Ho & Hl). destruct (Nat.eq_dec q p) as [->|Hne].
  - exists (tog o m). split; [now apply T_get_same|now rewrite tog_vars].
  - exists o. split; [now rewrite T_get_other|exact Hl].
Qed.

Lemma nth_error_of_nth (vs : list nat) k : k < length vs -> nth_error vs k = Some (nth k vs 0).
Proof. intros H. now apply List.nth_error_nth'. Qed.

(* one move of the loop head, on the consistent companion configuration W *)
Lemma move_wf (st : state) sl p0 e1 pos e x o :
  swf (length st) sl -> get_op sl pos = Some o -> fst e < length (o_vars o) -> fst x < length (o_vars o) ->
  leg_ok sl p0 e1 ->
  wf st (T (T sl pos e) p0 e1) = true -> (pos, x) <> (p0, e1) ->
  let sl' := T (T sl pos e) pos x in
  let var := nth (fst x) (o_vars o) 0 in
  let direct := if snd x then next_for_var sl' pos var else prev_for_var sl' pos var in
  let '(nxt, st') :=
    match direct with
    | Some y => (Some y, st)
    | None => (if snd x then first_for_var sl' var else last_for_var sl' var,
               set_nth st var (lv (tog (tog o e) x) x))
    end in
  match nxt with
  | None => True
  | Some (q, relq) =>
      wf st' (T (T sl' q (relq, negb (snd x))) p0 e1) = true
      /\ length st' = length st /\ leg_ok sl' q (relq, negb (snd x))
  end.
Proof.
  intros Hs Ho He Hx H0 Hwf Hne. cbv zeta.
  set (W := T (T sl pos e) p0 e1) in *.
  set (sl' := T (T sl pos e) pos x).
  set (var := nth (fst x) (o_vars o) 0).
  assert (HsW : swf (length st) W) by (unfold W; now repeat apply swf_T).
  assert (Hs' : swf (length st) sl') by (unfold sl'; now repeat apply swf_T).
  (* the operator of W at pos *)
  assert (HoW : exists oW, get_op W pos = Some oW /\ o_vars oW = o_vars o
                          /\ (forall m, m <> e1 \/ pos <> p0 -> lv oW m = lv (tog o e) m)).
  { unfold W. destruct (Nat.eq_dec p0 pos) as [->|Hp].
    - exists (tog (tog o e) e1). split; [apply T_get_same; now apply T_get_same|].
      split; [now rewrite !tog_vars|]. intros m [Hm|Hm]; [apply lv_tog_other; congruence|congruence].
    - exists (tog o e). split; [rewrite T_get_other by exact Hp; now apply T_get_same|].
      split; [apply tog_vars|reflexivity]. }
  destruct HoW as (oW & HgW & HvW & HlW).
  assert (Hvar : nth_error (o_vars oW) (fst x) = Some var) by (rewrite HvW; now apply nth_error_of_nth).
  assert (Halg : forall q ent, T (T sl' q ent) p0 e1 = T (T W pos x) q ent).
  { intros q ent. unfold sl', W. rewrite (T_comm _ q p0 ent e1). f_equal. apply T_comm. }
  assert (Hnav : forall q, next_for_var sl' q var = next_for_var W q var /\ prev_for_var sl' q var = prev_for_var W q var
                           /\ first_for_var sl' var = first_for_var W var /\ last_for_var sl' var = last_for_var W var).
  { intros q. unfold sl', W.
    destruct (nav_T (T sl pos e) pos x q var) as (A1 & A2 & A3 & A4).
    destruct (nav_T (T sl pos e) p0 e1 q var) as (B1 & B2 & B3 & B4).
    repeat split; congruence. }
  destruct (Hnav pos) as (N1 & N2 & N3 & N4).
  assert (Hlx : (pos, x) <> (p0, e1) -> x <> e1 \/ pos <> p0).
  { intros H. destruct (Nat.eq_dec pos p0) as [->|]; [left; intros ->; now apply H|now right]. }
  assert (Hval : lv (tog (tog o e) x) x = negb (lv oW x)).
  { rewrite (HlW x (Hlx Hne)).
    assert (Hoe : owf (length st) (tog o e)) by (apply owf_tog; exact (swf_get _ _ _ _ Hs Ho)).
    assert (Hxe : fst x < length (o_vars (tog o e))) by (now rewrite tog_vars).
    exact (lv_tog_same (length st) (tog o e) x Hoe Hxe). }
  destruct x as [kx [|]]; cbn [fst snd negb] in *.
  - (* leaving through an output leg: forward in imaginary time *)
    rewrite N1. destruct (next_for_var W pos var) as [[q kq]|] eqn:En.
    + split; [rewrite Halg; now apply (seg_fwd_inner st W pos oW kx var q kq)|]. split; [reflexivity|].
      destruct (next_some_pos sl' pos var q kq N1) as (_ & (b & Hb & Hkb) & _).
      exists b. split; [now apply get_op_nth|cbn [fst]; apply nth_error_Some; congruence].
    + rewrite N3. destruct (first_for_var W var) as [[q kq]|] eqn:Ef; [|exact I].
      match goal with |- context [set_nth st var ?val] => assert (Hst : set_nth st var val = xorv st var) end.
      { unfold xorv. f_equal. etransitivity; [exact Hval|]. f_equal. unfold lv. cbn [fst snd].
        apply get_op_nth in HgW.
        exact (last_out_is_state st W pos oW kx var HsW Hwf HgW Hvar (next_none_pos W pos var En)). }
      rewrite Hst. split; [rewrite Halg; now apply (seg_fwd_wrap st W pos oW kx var q kq)|].
      split; [apply xorv_length|].
      destruct (first_some_pos sl' var q kq N3) as ((b & Hb & Hkb) & _).
      exists b. split; [now apply get_op_nth|cbn [fst]; apply nth_error_Some; congruence].
  - (* leaving through an input leg: backward *)
    rewrite N2. destruct (prev_for_var W pos var) as [[q kq]|] eqn:En.
    + split; [rewrite Halg; now apply (seg_bwd_inner st W pos oW kx var q kq)|]. split; [reflexivity|].
      destruct (prev_some_pos sl' pos var q kq N2) as (_ & (b & Hb & Hkb) & _).
      exists b. split; [now apply get_op_nth|cbn [fst]; apply nth_error_Some; congruence].
    + rewrite N4. destruct (last_for_var W var) as [[q kq]|] eqn:Ef; [|exact I].
      match goal with |- context [set_nth st var ?val] => assert (Hst : set_nth st var val = xorv st var) end.
      { unfold xorv. f_equal. etransitivity; [exact Hval|]. f_equal. unfold lv. cbn [fst snd].
        apply get_op_nth in HgW.
        exact (first_in_is_state st W pos oW kx var HsW Hwf HgW Hvar (prev_none_pos W pos var En)). }
      rewrite Hst. split; [rewrite Halg; now apply (seg_bwd_wrap st W pos oW kx var q kq)|].
      split; [apply xorv_length|].
      destruct (last_some_pos sl' var q kq N4) as ((b & Hb & Hkb) & _).
      exists b. split; [now apply get_op_nth|cbn [fst]; apply nth_error_Some; congruence].
Qed.

Lemma pl_eqb_true a b : pl_eqb a b = true <-> a = b.
Proof.
  destruct a as [p [k s]], b as [q [j t]]. unfold pl_eqb, leg_eqb. cbn [fst snd].
  rewrite !andb_true_iff, !Nat.eqb_eq, Bool.eqb_true_iff. split.
  - intros [-> [-> ->]]. reflexivity.
  - intros E. inversion E. auto.
Qed.

Lemma all_legs_fst n k d : k < length (all_legs n) -> fst (nth k (all_legs n) d) < n.
Proof.
  intros Hk. pose proof (nth_In (all_legs n) d Hk) as Hin. remember (nth k (all_legs n) d) as y eqn:Ey. clear Ey.
  unfold all_legs in Hin.
  apply in_app_or in Hin. destruct Hin as [Hin|Hin]; apply in_map_iff in Hin; destruct Hin as (v & E & Hv);
    rewrite <- E; cbn [fst]; apply in_seq in Hv; lia.
Qed.

Definition good (r : option (slots * state)) : Prop :=
  match r with Some (sl', st') => wf st' sl' = true | None => True end.

Lemma loop_steps_wf H : forall fuel p0 e1 pos e sl (st : state),
  swf (length st) sl -> leg_ok sl p0 e1 -> leg_ok sl pos e ->
  wf st (T (T sl pos e) p0 e1) = true ->
  all_out_r good (loop_steps fuel H (p0, e1) pos e sl st).
Proof.
  induction fuel as [|fuel IH]; intros p0 e1 pos e sl st Hs H0 Hpe Hwf; cbn [loop_steps]; [exact I|].
  destruct Hpe as (o & Ho & He). rewrite Ho. cbn [all_out_r]. intros k Hk. rewrite map_length in Hk.
  set (x := nth k (all_legs (length (o_vars o))) (0, Inputs)).
  assert (Hx : fst x < length (o_vars o)) by (apply all_legs_fst; exact Hk).
  assert (Hsl' : set_nth sl pos (Some (pass_through o e x)) = T (T sl pos e) pos x).
  { rewrite (T_as_set sl pos e o Ho).
    rewrite (T_as_set _ pos x (tog o e)) by (apply get_op_set_same; eapply get_op_lt; eauto).
    now rewrite set_nth_set_nth, pass_through_tog. }
  clearbody x.
  replace (set_nth sl pos (Some (pass_through o e x))) with (T (T sl pos e) pos x) by (symmetry; exact Hsl').
  replace (pass_through o e x) with (tog (tog o e) x) by (symmetry; apply pass_through_tog).
  replace (o_vars (tog (tog o e) x)) with (o_vars o) by (rewrite (tog_vars (tog o e) x), (tog_vars o e); reflexivity).
  destruct (pl_eqb (pos, x) (p0, e1)) eqn:Ecl.
  - apply pl_eqb_true in Ecl. inversion Ecl; subst. cbn [all_out_r good]. exact Hwf.
  - assert (Hne : (pos, x) <> (p0, e1)) by (intros E; apply pl_eqb_true in E; congruence).
    pose proof (move_wf st sl p0 e1 pos e x o Hs Ho He Hx H0 Hwf Hne) as HM. cbv zeta in HM.
    change (nth (fst x) (if snd x then o_out (tog (tog o e) x) else o_in (tog (tog o e) x)) false)
      with (lv (tog (tog o e) x) x).
    set (sl' := T (T sl pos e) pos x) in *.
    set (var := nth (fst x) (o_vars o) 0) in *.
    destruct (if snd x then next_for_var sl' pos var else prev_for_var sl' pos var) as [y|].
    + destruct y as [q relq]. destruct HM as (HW & HL & Hleg).
      destruct (pl_eqb (q, (relq, negb (snd x))) (p0, e1)) eqn:Ecl2.
      * apply pl_eqb_true in Ecl2. inversion Ecl2; subst. cbn [all_out_r good].
        destruct Hleg as (b & Hb & _). now rewrite (T_T sl' p0 _ b Hb) in HW.
      * apply IH; [try rewrite HL; unfold sl'; do 2 apply swf_T; exact Hs|unfold sl'; do 2 apply leg_ok_T; exact H0|exact Hleg|exact HW].
    + destruct (if snd x then first_for_var sl' var else last_for_var sl' var) as [[q relq]|]; [|exact I].
      destruct HM as (HW & HL & Hleg).
      destruct (pl_eqb (q, (relq, negb (snd x))) (p0, e1)) eqn:Ecl2.
      * apply pl_eqb_true in Ecl2. inversion Ecl2; subst. cbn [all_out_r good].
        destruct Hleg as (b & Hb & _). now rewrite (T_T sl' p0 _ b Hb) in HW.
      * apply IH; [try rewrite HL; unfold sl'; do 2 apply swf_T; exact Hs|unfold sl'; do 2 apply leg_ok_T; exact H0|exact Hleg|exact HW].
Qed.

(* ================================================================== *)
(* The directed-loop update maps consistent periodic configurations to consistent periodic ones,
   for every Hamiltonian, every start and every sequence of exit choices. *)
Theorem loop_update_wf H fuel (sl : slots) (st : state) :
  ops_wellformed (length st) sl = true -> wf st sl = true ->
  all_out_r good (loop_update fuel H sl st).
Proof.
  intros Hw Hwf. pose proof (swf_of_wellformed _ _ Hw) as Hs.
  unfold loop_update. destruct (Nat.eqb (count_ops sl) 0); [exact Hwf|].
  destruct (Nat.eqb (length (var_slots sl)) 0); [exact Hwf|].
  cbn [all_out_r]. intros rN _.
  set (pv := nth (N.to_nat rN mod length (var_slots sl)) (var_slots sl) (0, 0)).
  destruct (get_op sl (fst pv)) as [o|] eqn:Ho; [|exact I].
  destruct (Nat.ltb (snd pv) (length (o_vars o))) eqn:Hlt; [|exact I].
  apply Nat.ltb_lt in Hlt.
  cbn [all_out_r]. intros b.
  set (leg := (snd pv, if b then Inputs else Outputs)).
  assert (Hleg : leg_ok sl (fst pv) leg) by (exists o; split; [exact Ho|unfold leg; cbn [fst]; lia]).
  apply loop_steps_wf; try assumption.
  now rewrite (T_T sl (fst pv) leg o Ho).
Qed.

Corollary loop_update_keeps_worldline H fuel sl st p sl' st' :
  ops_wellformed (length st) sl = true -> wf st sl = true ->
  In (p, Some (sl', st')) (denote (loop_update fuel H sl st)) -> wf st' sl' = true.
Proof.
  intros Hw Hwf Hin. exact (all_out_r_denote good _ (loop_update_wf H fuel sl st Hw Hwf) p (Some (sl', st')) Hin).
Qed.
