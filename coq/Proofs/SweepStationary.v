(* Kernel identification for the diagonal update (C01 / C02 / C08).

   The whole sweep program [sweep slot n st sl] — the term that is replayed against the
   implementation on raw RNG words — is identified with a composition of single-slot kernels on
   complete configurations (p = 0 state, operator string); each single-slot kernel is in detailed
   balance with the SSE configuration weight on the set of consistent, legal configurations, keeps
   that set closed and has total mass one; therefore the SSE weight is stationary under the whole
   sweep, for the Metropolis and the heat-bath variant. *)
From Coq Require Import List QArith ZArith NArith Bool Arith Lia Lqa.
From QmcV Require Import Model.Prog Model.Sse Model.Diagonal
     Proofs.ProgLemmas Proofs.DiagonalProofs Proofs.SseWeight Proofs.HamProofs Proofs.FastOpsLemmas
     Proofs.WorldLine Proofs.LegalityProofs Proofs.ClusterProofs Proofs.StepProofs Proofs.Expect.
Import ListNotations.
Open Scope Q_scope.

(* ------------------------------------------------------------------ *)
(* decidable equality on configurations                                *)
Lemma list_beq_eq {A} (eqb : A -> A -> bool) :
  (forall x y, eqb x y = true <-> x = y) -> forall a b, list_beq eqb a b = true <-> a = b.
Proof.
  intros He. induction a as [|x a IH]; intros [|y b]; cbn [list_beq]; try (split; congruence).
  rewrite andb_true_iff, He, IH. split; [intros [-> ->]; reflexivity|intros E; inversion E; auto].
Qed.

Lemma op_eqb_eq a b : op_eqb a b = true <-> a = b.
Proof.
  unfold op_eqb. rewrite !andb_true_iff, nats_eqb_eq, Nat.eqb_eq, !bools_eqb_eq, eqb_true_iff.
  destruct a, b; cbn. split; [intros [[[[-> ->] ->] ->] ->]; reflexivity|intros E; inversion E; auto].
Qed.

Lemma oop_eqb_eq a b : oop_eqb a b = true <-> a = b.
Proof.
  destruct a as [x|], b as [y|]; cbn [oop_eqb]; try (split; congruence).
  rewrite op_eqb_eq. split; congruence.
Qed.

Lemma slots_eqb_eq a b : slots_eqb a b = true <-> a = b.
Proof. apply list_beq_eq, oop_eqb_eq. Qed.

Definition cfg := (state * slots)%type.
Definition cfg_eqb (a b : cfg) : bool := bools_eqb (fst a) (fst b) && slots_eqb (snd a) (snd b).

Lemma cfg_eqb_ok a b : cfg_eqb a b = true <-> a = b.
Proof.
  unfold cfg_eqb. rewrite andb_true_iff, bools_eqb_eq, slots_eqb_eq.
  destruct a, b; cbn. split; [intros [-> ->]; reflexivity|intros E; inversion E; auto].
Qed.

Lemma bool_eq_iff (a b : bool) : (a = true <-> b = true) -> a = b.
Proof. destruct a, b; intros [H1 H2]; auto; try (symmetry; apply H1; reflexivity); apply H2; reflexivity. Qed.

Lemma mass_ext_bool {A} (P Q : A -> bool) d : (forall a, P a = Q a) -> mass P d == mass Q d.
Proof.
  intros H. induction d as [|[p a] d IH]; [reflexivity|]. rewrite !mass_cons, IH, (H a). reflexivity.
Qed.

Lemma mass_andb_const {A} (c : bool) (P : A -> bool) d :
  mass (fun a => c && P a) d == if c then mass P d else 0.
Proof.
  destruct c; cbn [andb]; [reflexivity|].
  apply mass_zero_if_never. reflexivity.
Qed.

(* ------------------------------------------------------------------ *)
(* list surgery at one position                                        *)
Lemma nth_error_split {A} (l : list A) p x :
  nth_error l p = Some x -> l = firstn p l ++ x :: skipn (S p) l.
Proof.
  revert p. induction l as [|h t IH]; intros [|p] H; cbn in H; try discriminate.
  - inversion H; subst. reflexivity.
  - cbn [firstn skipn app]. f_equal. apply (IH p H).
Qed.

Lemma set_nth_split {A} (l : list A) p x y :
  nth_error l p = Some x -> set_nth l p y = firstn p l ++ y :: skipn (S p) l.
Proof.
  revert p. induction l as [|h t IH]; intros [|p] H; cbn in H; try discriminate.
  - reflexivity.
  - cbn [set_nth firstn skipn app]. f_equal. apply (IH p H).
Qed.

Lemma firstn_set_nth {A} (l : list A) p y : firstn p (set_nth l p y) = firstn p l.
Proof.
  revert p. induction l as [|h t IH]; intros [|p]; cbn [set_nth firstn]; try reflexivity.
  f_equal. apply IH.
Qed.

Lemma nth_error_set_nth_same {A} (l : list A) p x y :
  nth_error l p = Some x -> nth_error (set_nth l p y) p = Some y.
Proof.
  revert p. induction l as [|h t IH]; intros [|p] H; cbn in H; try discriminate; cbn; [reflexivity|].
  apply (IH p H).
Qed.

Lemma set_nth_set_nth {A} (l : list A) p x y : set_nth (set_nth l p x) p y = set_nth l p y.
Proof.
  revert p. induction l as [|h t IH]; intros [|p]; cbn [set_nth]; try reflexivity. f_equal. apply IH.
Qed.

Lemma nth_error_nth' {A} (l : list A) p x d : nth_error l p = Some x -> nth p l d = x.
Proof. intros H. now apply nth_error_nth. Qed.

Lemma count_ops_app a b : count_ops (a ++ b) = (count_ops a + count_ops b)%nat.
Proof. unfold count_ops. rewrite filter_app, app_length. reflexivity. Qed.

Lemma count_ops_set_nth sl p o o' :
  nth_error sl p = Some o -> (count_ops (set_nth sl p o') + occ o = count_ops sl + occ o')%nat.
Proof.
  intros H. rewrite (set_nth_split sl p o o' H). rewrite (nth_error_split sl p o H) at 3.
  rewrite !count_ops_app, !count_ops_cons. lia.
Qed.

Lemma propagate_app st a b : propagate st (a ++ b) = propagate (propagate st a) b.
Proof. unfold propagate. apply fold_left_app. Qed.

(* ------------------------------------------------------------------ *)
(* the world line around one position                                  *)
Lemma check_line_propagate sl : forall st fin, check_line st sl = Some fin -> fin = propagate st sl.
Proof.
  induction sl as [|o sl IH]; intros st fin H; cbn [check_line] in H.
  - inversion H. reflexivity.
  - destruct o as [a|].
    + destruct (_ && _ && _)%bool; [|discriminate]. cbn [propagate fold_left apply_slot]. apply (IH _ _ H).
    + cbn [propagate fold_left apply_slot]. apply (IH _ _ H).
Qed.

Definition line_ok (st : state) (a : op) : bool :=
  bools_eqb (read_vals st (o_vars a)) (o_in a)
  && Nat.eqb (length (o_in a)) (length (o_vars a))
  && Nat.eqb (length (o_out a)) (length (o_vars a)).

Lemma check_line_at s sl p o fin :
  check_line s sl = Some fin -> nth_error sl p = Some o ->
  let stp := propagate s (firstn p sl) in
  check_line s (firstn p sl) = Some stp
  /\ match o with
     | Some a => line_ok stp a = true /\ check_line (apply_op stp a) (skipn (S p) sl) = Some fin
     | None => check_line stp (skipn (S p) sl) = Some fin
     end.
Proof.
  intros Hl Hn. cbv zeta. rewrite (nth_error_split sl p o Hn) in Hl at 1.
  rewrite check_line_app in Hl.
  destruct (check_line s (firstn p sl)) as [stp|] eqn:E; [|discriminate].
  pose proof (check_line_propagate _ _ _ E) as ->. split; [reflexivity|].
  destruct o as [a|]; cbn [check_line] in Hl; [|exact Hl].
  fold (line_ok (propagate s (firstn p sl)) a) in Hl.
  destruct (line_ok (propagate s (firstn p sl)) a); [|discriminate]. split; [reflexivity|exact Hl].
Qed.

Lemma check_line_rebuild s sl p o o' fin :
  nth_error sl p = Some o ->
  check_line s (firstn p sl) = Some (propagate s (firstn p sl)) ->
  check_line (propagate s (firstn p sl)) (o' :: skipn (S p) sl) = Some fin ->
  check_line s (set_nth sl p o') = Some fin.
Proof.
  intros Hn H1 H2. rewrite (set_nth_split sl p o o' Hn), check_line_app, H1. exact H2.
Qed.

(* ------------------------------------------------------------------ *)
(* consistent and legal configurations                                 *)
Definition good (H : ham) (c : cfg) : bool := wf (fst c) (snd c) && all_legal H (snd c).

Lemma all_legal_nth H sl p a : all_legal H sl = true -> nth_error sl p = Some (Some a) -> op_legal H a = true.
Proof.
  intros Hl Hn. unfold all_legal in Hl. rewrite forallb_forall in Hl.
  apply (Hl (Some a)). eapply nth_error_In; eauto.
Qed.

Lemma all_legal_set H sl p o' :
  all_legal H sl = true -> match o' with Some a => op_legal H a = true | None => True end ->
  all_legal H (set_nth sl p o') = true.
Proof.
  intros Hl Ho. unfold all_legal. apply forallb_set_nth; [exact Hl|]. destruct o'; auto.
Qed.

Lemma op_legal_mk_diag H b st :
  (b < h_nbonds H)%nat -> 0 < diag_weight H b st -> op_legal H (mk_diag H b st) = true.
Proof.
  intros Hb Hw. pose proof (mk_diag_struct_legal H b st Hb) as Hs.
  unfold op_struct_legal in Hs. unfold op_legal. rewrite Hs. cbn [andb].
  apply negb_true_iff. destruct (Qle_bool (op_weight H (mk_diag H b st)) 0) eqn:E; [|reflexivity].
  apply Qle_bool_iff in E. change (op_weight H (mk_diag H b st)) with (diag_weight H b st) in E. lra.
Qed.

(* a legal diagonal operator that meets the state is exactly the one the update would insert *)
Lemma legal_diag_is_mk_diag H st a :
  op_legal H a = true -> line_ok st a = true -> is_diag a = true ->
  a = mk_diag H (o_bond a) st /\ (o_bond a < h_nbonds H)%nat /\ 0 < diag_weight H (o_bond a) st.
Proof.
  unfold op_legal, line_ok, is_diag. rewrite !andb_true_iff, negb_true_iff.
  intros [[[[[Hb Hv] Hc] _] _] Hw] [[Hr _] _] Hd.
  apply Nat.ltb_lt in Hb. apply nats_eqb_eq in Hv. apply eqb_prop in Hc.
  apply bools_eqb_eq in Hr. apply bools_eqb_eq in Hd.
  assert (E : a = mk_diag H (o_bond a) st).
  { destruct a as [vs b i o c]. cbn in *. unfold mk_diag. subst. reflexivity. }
  split; [exact E|]. split; [exact Hb|].
  assert (Hw' : ~ op_weight H a <= 0) by (intros HH; apply Qle_bool_iff in HH; congruence).
  rewrite E in Hw'. change (op_weight H (mk_diag H (o_bond a) st)) with (diag_weight H (o_bond a) st) in Hw'. lra.
Qed.

Lemma mk_diag_line_ok H b st : line_ok st (mk_diag H b st) = true.
Proof.
  destruct (mk_diag_line H b st) as (E1 & E2 & E3 & _). unfold line_ok. rewrite E1, E2, E3, !Nat.eqb_refl. reflexivity.
Qed.

(* replacing the content of slot p by what a slot update can produce keeps a good configuration good *)
Lemma good_remove H s sl p a :
  good H (s, sl) = true -> nth_error sl p = Some (Some a) -> is_diag a = true ->
  good H (s, set_nth sl p None) = true.
Proof.
  unfold good. cbn [fst snd]. rewrite !andb_true_iff. intros [Hwf Hl] Hn Hd. split.
  - unfold wf in *. destruct (check_line s sl) as [fin|] eqn:E; [|discriminate].
    destruct (check_line_at s sl p (Some a) fin E Hn) as [H1 [Hok H2]].
    assert (Hsame : apply_op (propagate s (firstn p sl)) a = propagate s (firstn p sl)).
    { unfold line_ok in Hok. rewrite !andb_true_iff in Hok. destruct Hok as [[Hr _] _]. now apply apply_diag_same. }
    rewrite Hsame in H2.
    rewrite (check_line_rebuild s sl p (Some a) None fin Hn H1); [exact Hwf|]. exact H2.
  - now apply all_legal_set.
Qed.

Lemma good_insert H s sl p b :
  good H (s, sl) = true -> nth_error sl p = Some None ->
  (b < h_nbonds H)%nat -> 0 < diag_weight H b (propagate s (firstn p sl)) ->
  good H (s, set_nth sl p (Some (mk_diag H b (propagate s (firstn p sl))))) = true.
Proof.
  unfold good. cbn [fst snd]. rewrite !andb_true_iff. intros [Hwf Hl] Hn Hb Hw. split.
  - unfold wf in *. destruct (check_line s sl) as [fin|] eqn:E; [|discriminate].
    destruct (check_line_at s sl p None fin E Hn) as [H1 H2].
    rewrite (check_line_rebuild s sl p None _ fin Hn H1); [exact Hwf|].
    cbn [check_line]. fold (line_ok (propagate s (firstn p sl)) (mk_diag H b (propagate s (firstn p sl)))).
    rewrite mk_diag_line_ok. destruct (mk_diag_line H b (propagate s (firstn p sl))) as (_ & _ & _ & E4).
    rewrite E4. exact H2.
  - apply all_legal_set; [exact Hl|]. now apply op_legal_mk_diag.
Qed.

(* ------------------------------------------------------------------ *)
(* the single-slot kernel on complete configurations                   *)
Definition slotfn := nat -> state -> option op -> prog (option op * state).

Definition slot_at (slot : slotfn) (p : nat) (c : cfg) : prog cfg :=
  match nth_error (snd c) p with
  | None => Ret c
  | Some o =>
      bind (slot (count_ops (snd c)) (propagate (fst c) (firstn p (snd c))) o)
           (fun r => Ret (fst c, set_nth (snd c) p (fst r)))
  end.

(* k more slots starting at position p *)
Fixpoint cfg_sweep (slot : slotfn) (p k : nat) (c : cfg) : prog cfg :=
  match k with
  | O => Ret c
  | S k' => bind (slot_at slot p c) (cfg_sweep slot (S p) k')
  end.

(* what is assumed of a slot program; proved below for the Metropolis and the heat-bath program *)
Record slot_good (H : ham) (beta : Q) (L : nat) (slot : slotfn) : Prop := {
  sg_spec : forall n, slot_spec H (slot n);
  sg_total : forall n st o, (o = None -> (n < L)%nat) -> total (denote (slot n st o)) == 1;
  sg_pos : forall n st p o' st' b, (n < L)%nat ->
      In (p, (o', st')) (denote (slot n st None)) -> o' = Some (mk_diag H b st) -> ~ p == 0 ->
      0 < diag_weight H b st;
  sg_bal : forall n st b, (n < L)%nat -> (b < h_nbonds H)%nat -> 0 < diag_weight H b st ->
      mass (is_slot (Some (mk_diag H b st))) (denote (slot n st None)) * Qnat (L - n)
      == beta * diag_weight H b st * mass (is_slot None) (denote (slot (S n) st (Some (mk_diag H b st))))
}.

Section Kernel.
  Variable H : ham.
  Variable beta : Q.
  Variable L : nat.
  Variable slot : slotfn.
  Hypothesis Hsg : slot_good H beta L slot.

  Definition W (c : cfg) : Q := sse_weight H beta (snd c).

  (* probability of reaching (s', sl') from (s, sl) in one slot update at p *)
  Lemma mass_slot_at s sl s' sl' p o :
    nth_error sl p = Some o ->
    mass (cfg_eqb (s', sl')) (denote (slot_at slot p (s, sl)))
    == if (bools_eqb s' s && slots_eqb sl' (set_nth sl p (nth p sl' None)))%bool
       then mass (is_slot (nth p sl' None)) (denote (slot (count_ops sl) (propagate s (firstn p sl)) o))
       else 0.
  Proof.
    intros Hn. unfold slot_at. cbn [fst snd]. rewrite Hn, mass_bind_ret.
    rewrite <- mass_andb_const. apply mass_ext_bool. intros [o1 st1]. cbn [fst].
    apply bool_eq_iff. unfold cfg_eqb, is_slot. cbn [fst snd].
    rewrite !andb_true_iff, !bools_eqb_eq, !slots_eqb_eq, oop_eqb_eq.
    assert (Hp : (p < length sl)%nat) by (apply nth_error_Some; congruence).
    split.
    - intros [-> ->]. rewrite nth_set_nth, Nat.eqb_refl.
      replace (Nat.ltb p (length sl)) with true by (symmetry; now apply Nat.ltb_lt). cbn [andb]. auto.
    - intros [[-> E] ->]. auto.
  Qed.

  Lemma empty_slot_lt sl p : nth_error sl p = Some None -> (count_ops sl < length sl)%nat.
  Proof. intros Hn. apply empty_slot_headroom. eapply nth_error_In; eauto. Qed.

  (* detailed balance of the single-slot kernel, the insertion / removal pair *)
  Lemma slot_at_balance_ins s sl p b :
    length sl = L -> 0 < beta ->
    good H (s, sl) = true -> nth_error sl p = Some None ->
    (b < h_nbonds H)%nat -> 0 < diag_weight H b (propagate s (firstn p sl)) ->
    let a := mk_diag H b (propagate s (firstn p sl)) in
    let sl' := set_nth sl p (Some a) in
    W (s, sl) * mass (cfg_eqb (s, sl')) (denote (slot_at slot p (s, sl)))
    == W (s, sl') * mass (cfg_eqb (s, sl)) (denote (slot_at slot p (s, sl'))).
  Proof.
    intros HL Hbeta Hg Hn Hb Hw. cbv zeta.
    set (stp := propagate s (firstn p sl)) in *. set (a := mk_diag H b stp).
    assert (Hn' : nth_error (set_nth sl p (Some a)) p = Some (Some a)) by (eapply nth_error_set_nth_same; eauto).
    rewrite (mass_slot_at s sl s (set_nth sl p (Some a)) p None Hn).
    rewrite (mass_slot_at s (set_nth sl p (Some a)) s sl p (Some a) Hn').
    rewrite (nth_error_nth' _ _ _ None Hn'), (nth_error_nth' _ _ _ None Hn).
    rewrite set_nth_set_nth, firstn_set_nth. fold stp.
    replace (set_nth sl p None) with sl by (symmetry; rewrite <- (nth_error_nth' _ _ _ None Hn); apply set_nth_same).
    rewrite !bools_eqb_refl.
    replace (slots_eqb (set_nth sl p (Some a)) (set_nth sl p (Some a))) with true by (symmetry; now apply slots_eqb_eq).
    replace (slots_eqb sl sl) with true by (symmetry; now apply slots_eqb_eq). cbn [andb].
    rewrite (count_ops_set_some sl p a Hn).
    set (n := count_ops sl).
    assert (Hlt : (n < L)%nat) by (rewrite <- HL; now apply (empty_slot_lt sl p)).
    pose proof (sg_bal H beta L slot Hsg n stp b Hlt Hb Hw) as Hbal. fold a in Hbal.
    pose proof (sse_weight_fill_ratio H beta sl p a Hn) as Hr. rewrite HL in Hr. fold n in Hr.
    assert (Hop : op_weight H a == diag_weight H b stp) by reflexivity. rewrite Hop in Hr.
    assert (Hd : 0 < Qnat (L - n)) by (apply Qnat_pos; lia).
    unfold W. cbn [snd].
    set (Pi := mass _ (denote (slot n stp None))) in *.
    set (Pr := mass _ (denote (slot (S n) stp (Some a)))) in *.
    set (We := sse_weight H beta sl) in *. set (Wb := sse_weight H beta (set_nth sl p (Some a))) in *.
    apply (Qmult_inj_r _ _ (Qnat (L - n))); [lra|].
    transitivity (We * (Pi * Qnat (L - n))); [ring|]. rewrite Hbal.
    transitivity ((Wb * Qnat (L - n)) * Pr); [|ring]. rewrite Hr. ring.
  Qed.

  (* mass of reaching a slot content the slot program cannot produce *)
  Lemma slot_mass_zero n st o o' :
    (forall p r, In (p, r) (denote (slot n st o)) -> fst r <> o') ->
    mass (is_slot o') (denote (slot n st o)) == 0.
  Proof.
    intros Hne. apply mass_zero_if_never. intros p r Hin. unfold is_slot.
    destruct (oop_eqb (fst r) o') eqn:E; [|reflexivity]. apply oop_eqb_eq in E. exfalso. eapply Hne; eauto.
  Qed.

  (* full detailed balance of the single-slot kernel on good configurations of length L *)
  Theorem slot_at_detailed_balance p x y :
    0 < beta ->
    length (snd x) = L -> length (snd y) = L -> good H x = true -> good H y = true ->
    W x * mass (cfg_eqb y) (denote (slot_at slot p x)) == W y * mass (cfg_eqb x) (denote (slot_at slot p y)).
  Proof.
    intros Hbeta. destruct x as [s sl], y as [s' sl']. cbn [fst snd]. intros HLx HLy Hgx Hgy.
    destruct (cfg_eqb (s, sl) (s', sl')) eqn:Exy.
    { apply cfg_eqb_ok in Exy. inversion Exy; subst. reflexivity. }
    assert (Hne : (s, sl) <> (s', sl')) by (intros E; apply cfg_eqb_ok in E; congruence).
    destruct (nth_error sl p) as [o|] eqn:Hn.
    2:{ (* p beyond the string: both kernels are the identity *)
      assert (Hn' : nth_error sl' p = None).
      { apply nth_error_None. apply nth_error_None in Hn. lia. }
      unfold slot_at. cbn [fst snd]. rewrite Hn, Hn', !mass_ret.
      replace (cfg_eqb (s', sl') (s, sl)) with false.
      2:{ symmetry. destruct (cfg_eqb (s', sl') (s, sl)) eqn:E; [|reflexivity]. apply cfg_eqb_ok in E. congruence. }
      rewrite Exy. ring. }
    assert (Hp : (p < length sl)%nat) by (apply nth_error_Some; congruence).
    destruct (nth_error sl' p) as [o'|] eqn:Hn'; [|apply nth_error_None in Hn'; lia].
    rewrite (mass_slot_at s sl s' sl' p o Hn), (mass_slot_at s' sl' s sl p o' Hn').
    rewrite (nth_error_nth' _ _ _ None Hn), (nth_error_nth' _ _ _ None Hn').
    (* are the two configurations related by a change of slot p only? *)
    destruct (bools_eqb s' s && slots_eqb sl' (set_nth sl p o'))%bool eqn:Erel.
    2:{ (* not related: both probabilities vanish *)
      replace (bools_eqb s s' && slots_eqb sl (set_nth sl' p o))%bool with false; [ring|].
      symmetry. destruct (bools_eqb s s' && slots_eqb sl (set_nth sl' p o))%bool eqn:E2; [|reflexivity].
      apply andb_true_iff in E2. destruct E2 as [E2a E2b]. apply bools_eqb_eq in E2a. apply slots_eqb_eq in E2b.
      subst s'. exfalso.
      assert (Hrel : (bools_eqb s s && slots_eqb sl' (set_nth sl p o'))%bool = true).
      { rewrite bools_eqb_refl. cbn [andb]. apply slots_eqb_eq. rewrite E2b, set_nth_set_nth.
        rewrite <- (nth_error_nth' _ _ _ None Hn'). symmetry. apply set_nth_same. }
      congruence. }
    apply andb_true_iff in Erel. destruct Erel as [E1 E2]. apply bools_eqb_eq in E1. apply slots_eqb_eq in E2. subst s'.
    assert (E3 : sl = set_nth sl' p o).
    { rewrite E2, set_nth_set_nth. rewrite <- (nth_error_nth' _ _ _ None Hn). symmetry. apply set_nth_same. }
    replace (bools_eqb s s && slots_eqb sl (set_nth sl' p o))%bool with true.
    2:{ symmetry. rewrite bools_eqb_refl. cbn [andb]. now apply slots_eqb_eq. }
    assert (Hoo : o <> o').
    { intros ->. apply Hne. f_equal. rewrite E2. rewrite <- (nth_error_nth' _ _ _ None Hn). symmetry. apply set_nth_same. }
    assert (Hst : propagate s (firstn p sl') = propagate s (firstn p sl)) by (rewrite E2, firstn_set_nth; reflexivity).
    rewrite Hst. set (stp := propagate s (firstn p sl)) in *.
    (* world-line and legality information at p *)
    unfold good in Hgx, Hgy. cbn [fst snd] in Hgx, Hgy. apply andb_true_iff in Hgx, Hgy.
    destruct Hgx as [Hwx Hlx], Hgy as [Hwy Hly].
    pose proof (sg_spec H beta L slot Hsg) as Hspec.
    destruct o as [a|], o' as [a'|].
    - (* Some a, Some a' with a <> a': neither can be reached from the other *)
      rewrite (slot_mass_zero (count_ops sl) stp (Some a) (Some a')).
      2:{ intros q [o1 st1] Hin. apply (Hspec (count_ops sl)) in Hin. cbn [fst].
          destruct (is_diag a); [destruct Hin as [_ [->| ->]]|destruct Hin as [-> _]]; congruence. }
      rewrite (slot_mass_zero (count_ops sl') stp (Some a') (Some a)).
      2:{ intros q [o1 st1] Hin. apply (Hspec (count_ops sl')) in Hin. cbn [fst].
          destruct (is_diag a'); [destruct Hin as [_ [->| ->]]|destruct Hin as [-> _]]; congruence. }
      ring.
    - (* Some a -> None : the mirror image of the insertion case *)
      unfold wf in Hwx. destruct (check_line s sl) as [fin|] eqn:El; [|discriminate].
      destruct (check_line_at s sl p (Some a) fin El Hn) as [_ [Hok _]]. fold stp in Hok.
      pose proof (all_legal_nth H sl p a Hlx Hn) as Hla.
      destruct (is_diag a) eqn:Hd.
      + destruct (legal_diag_is_mk_diag H stp a Hla Hok Hd) as (Ea & Hb & Hw).
        assert (Hgy' : good H (s, sl') = true) by (unfold good; cbn [fst snd]; now rewrite Hwy, Hly).
        pose proof (slot_at_balance_ins s sl' p (o_bond a) HLy Hbeta Hgy' Hn') as Hins.
        rewrite Hst in Hins. specialize (Hins Hb Hw). cbv zeta in Hins. rewrite <- Ea, <- E3 in Hins.
        rewrite (mass_slot_at s sl' s sl p None Hn'), (mass_slot_at s sl s sl' p (Some a) Hn) in Hins.
        rewrite (nth_error_nth' _ _ _ None Hn), (nth_error_nth' _ _ _ None Hn'), Hst in Hins.
        rewrite <- E3, <- E2, !bools_eqb_refl in Hins.
        replace (slots_eqb sl sl) with true in Hins by (symmetry; now apply slots_eqb_eq).
        replace (slots_eqb sl' sl') with true in Hins by (symmetry; now apply slots_eqb_eq).
        cbn [andb] in Hins. symmetry. exact Hins.
      + (* an off-diagonal operator is never removed and never inserted *)
        rewrite (slot_mass_zero (count_ops sl) stp (Some a) None).
        2:{ intros q [o1 st1] Hin. apply (Hspec (count_ops sl)) in Hin. cbn [fst]. rewrite Hd in Hin.
            destruct Hin as [-> _]. congruence. }
        rewrite (slot_mass_zero (count_ops sl') stp None (Some a)).
        2:{ intros q [o1 st1] Hin. apply (Hspec (count_ops sl')) in Hin. cbn [fst].
            destruct Hin as [_ [->|[b [_ ->]]]]; [congruence|].
            intros E. inversion E as [E']. rewrite <- E' in Hd. rewrite mk_diag_is_diag in Hd. discriminate. }
        ring.
    - (* None -> Some a' *)
      unfold wf in Hwy. destruct (check_line s sl') as [fin|] eqn:El; [|discriminate].
      destruct (check_line_at s sl' p (Some a') fin El Hn') as [_ [Hok _]]. rewrite Hst in Hok.
      pose proof (all_legal_nth H sl' p a' Hly Hn') as Hla.
      destruct (is_diag a') eqn:Hd.
      + destruct (legal_diag_is_mk_diag H stp a' Hla Hok Hd) as (Ea & Hb & Hw).
        assert (Hgx' : good H (s, sl) = true) by (unfold good; cbn [fst snd]; now rewrite Hwx, Hlx).
        pose proof (slot_at_balance_ins s sl p (o_bond a') HLx Hbeta Hgx' Hn Hb Hw) as Hins.
        cbv zeta in Hins. fold stp in Hins. rewrite <- Ea, <- E2 in Hins.
        rewrite (mass_slot_at s sl s sl' p None Hn), (mass_slot_at s sl' s sl p (Some a') Hn') in Hins.
        rewrite (nth_error_nth' _ _ _ None Hn), (nth_error_nth' _ _ _ None Hn'), Hst in Hins.
        rewrite <- E3, <- E2, !bools_eqb_refl in Hins.
        replace (slots_eqb sl sl) with true in Hins by (symmetry; now apply slots_eqb_eq).
        replace (slots_eqb sl' sl') with true in Hins by (symmetry; now apply slots_eqb_eq).
        cbn [andb] in Hins. exact Hins.
      + rewrite (slot_mass_zero (count_ops sl') stp (Some a') None).
        2:{ intros q [o1 st1] Hin. apply (Hspec (count_ops sl')) in Hin. cbn [fst]. rewrite Hd in Hin.
            destruct Hin as [-> _]. congruence. }
        rewrite (slot_mass_zero (count_ops sl) stp None (Some a')).
        2:{ intros q [o1 st1] Hin. apply (Hspec (count_ops sl)) in Hin. cbn [fst].
            destruct Hin as [_ [->|[b [_ ->]]]]; [congruence|].
            intros E. inversion E as [E']. rewrite <- E' in Hd. rewrite mk_diag_is_diag in Hd. discriminate. }
        ring.
    - congruence.
  Qed.
End Kernel.

(* ------------------------------------------------------------------ *)
(* entries of [bind m (fun a => Ret (g a))]                            *)
Lemma dscale_map {A B} (g : A -> B) q (d : dist A) :
  dscale q (map (fun '(p, a) => (p, g a)) d) = map (fun '(p, a) => (p, g a)) (dscale q d).
Proof. unfold dscale. rewrite !map_map. apply map_ext. intros [p a]. reflexivity. Qed.

Lemma flat_map_map_out {A B C} (h : B -> C) (f : A -> list B) l :
  flat_map (fun i => map h (f i)) l = map h (flat_map f l).
Proof. induction l as [|x l IH]; cbn [flat_map]; [reflexivity|]. now rewrite map_app, IH. Qed.

Lemma denote_bind_ret {A B} (m : prog A) (g : A -> B) :
  denote (bind m (fun a => Ret (g a))) = map (fun '(p, a) => (p, g a)) (denote m).
Proof.
  induction m as [a|n f IH|n f IH|q f IH|x y f IH|f IH|ws f IH|cs f IH|lo hi f IH|f IH|sure q f IH];
    cbn [bind denote].
  - reflexivity.
  - rewrite <- flat_map_map_out. apply flat_map_ext. intros i. now rewrite IH, dscale_map.
  - rewrite <- flat_map_map_out. apply flat_map_ext. intros i. now rewrite IH, dscale_map.
  - now rewrite map_app, !IH, !dscale_map.
  - now rewrite map_app, !IH, !dscale_map.
  - now rewrite map_app, !IH, !dscale_map.
  - rewrite <- flat_map_map_out. apply flat_map_ext. intros i. now rewrite IH, dscale_map.
  - rewrite <- flat_map_map_out. apply flat_map_ext. intros i.
    destruct (nth i cs (0, 0)) as [mw w]. now rewrite map_app, !IH, !dscale_map.
  - now rewrite map_app, !IH, !dscale_map.
  - rewrite map_app, <- flat_map_map_out, IH, dscale_map. f_equal.
    apply flat_map_ext. intros i. now rewrite IH, dscale_map.
  - now rewrite map_app, !IH, !dscale_map.
Qed.

Lemma in_dscale_q {A} q (d : dist A) p a : In (p, a) (dscale q d) -> exists p', p = q * p' /\ In (p', a) d.
Proof.
  unfold dscale. intros Hin. apply in_map_iff in Hin. destruct Hin as [[p' a'] [E Hin]].
  inversion E; subst. eauto.
Qed.

(* ------------------------------------------------------------------ *)
(* a configuration space: good configurations of one length, closed under good single-slot changes *)
Record space_ok (H : ham) (L : nat) (xs : list cfg) : Prop := {
  sp_nodup : NoDup xs;
  sp_good : forall c, In c xs -> good H c = true /\ length (snd c) = L;
  sp_closed : forall s sl p o', In (s, sl) xs -> good H (s, set_nth sl p o') = true -> In (s, set_nth sl p o') xs
}.

Section Stationary.
  Variable H : ham.
  Variable beta : Q.
  Variable L : nat.
  Variable slot : slotfn.
  Hypothesis Hsg : slot_good H beta L slot.
  Hypothesis Hbeta : 0 < beta.
  Variable xs : list cfg.
  Hypothesis Hxs : space_ok H L xs.

  Lemma slot_at_closed p x : In x xs -> supp_in xs (denote (slot_at slot p x)).
  Proof.
    intros Hx. destruct x as [s sl]. destruct (sp_good H L xs Hxs _ Hx) as [Hg HL]. cbn [snd] in HL.
    unfold slot_at, supp_in. cbn [fst snd]. destruct (nth_error sl p) as [o|] eqn:Hn.
    2:{ cbn [denote]. constructor; [right; exact Hx|constructor]. }
    rewrite denote_bind_ret. apply Forall_forall. intros [q c] Hin.
    apply in_map_iff in Hin. destruct Hin as [[q' [o1 st1]] [E Hin]]. inversion E; subst q c. clear E. cbn [fst].
    set (stp := propagate s (firstn p sl)) in *. set (n := count_ops sl) in *.
    pose proof (sg_spec H beta L slot Hsg n _ _ _ _ _ Hin) as Hs.
    assert (Hsame : forall o0, nth_error sl p = Some o0 -> set_nth sl p o0 = sl).
    { intros o0 Ho. rewrite <- (nth_error_nth' _ _ _ None Ho). apply set_nth_same. }
    destruct o as [a|].
    - destruct (is_diag a) eqn:Hd.
      + destruct Hs as [_ [->| ->]].
        * right. apply (sp_closed H L xs Hxs); [exact Hx|]. eapply good_remove; eauto.
        * right. rewrite (Hsame _ Hn). exact Hx.
      + destruct Hs as [-> _]. right. rewrite (Hsame _ Hn). exact Hx.
    - destruct Hs as [_ [->|[b [Hb ->]]]].
      + right. rewrite (Hsame _ Hn). exact Hx.
      + destruct (Qeq_dec q' 0) as [Hz|Hnz]; [left; exact Hz|]. right.
        assert (Hlt : (n < L)%nat) by (rewrite <- HL; now apply (empty_slot_lt sl p)).
        pose proof (sg_pos H beta L slot Hsg n stp q' _ st1 b Hlt Hin eq_refl Hnz) as Hw.
        apply (sp_closed H L xs Hxs); [exact Hx|]. now apply good_insert.
  Qed.

  Lemma slot_at_total p x : In x xs -> total (denote (slot_at slot p x)) == 1.
  Proof.
    intros Hx. destruct x as [s sl]. destruct (sp_good H L xs Hxs _ Hx) as [Hg HL]. cbn [snd] in HL.
    unfold slot_at. cbn [fst snd]. destruct (nth_error sl p) as [o|] eqn:Hn.
    2:{ unfold total. rewrite mass_ret. reflexivity. }
    unfold total. rewrite mass_bind_ret. apply (sg_total H beta L slot Hsg).
    intros ->. rewrite <- HL. now apply (empty_slot_lt sl p).
  Qed.

  (* the SSE weight is stationary under the update of any single slot ... *)
  Theorem slot_at_stationary p : wstat xs (W H beta) (slot_at slot p).
  Proof.
    apply (wstat_of_detailed_balance cfg_eqb cfg_eqb_ok).
    - apply (sp_nodup H L xs Hxs).
    - intros x Hx. now apply slot_at_closed.
    - intros x Hx. now apply slot_at_total.
    - intros x y Hx Hy.
      destruct (sp_good H L xs Hxs _ Hx) as [Hgx HLx]. destruct (sp_good H L xs Hxs _ Hy) as [Hgy HLy].
      now apply (slot_at_detailed_balance H beta L slot Hsg).
  Qed.

  (* ... and therefore under any run of consecutive slot updates *)
  Theorem cfg_sweep_stationary k : forall p, wstat xs (W H beta) (cfg_sweep slot p k).
  Proof.
    induction k as [|k IH]; intros p; cbn [cfg_sweep].
    - apply wstat_ret.
    - apply (wstat_comp xs (W H beta) (slot_at slot p) (cfg_sweep slot (S p) k)).
      + apply slot_at_stationary.
      + apply IH.
  Qed.
End Stationary.

(* ------------------------------------------------------------------ *)
(* the sweep program of the model IS the composition of the single-slot kernels *)
Lemma nth_error_mid {A} (pre : list A) o r : nth_error (pre ++ o :: r) (length pre) = Some o.
Proof. rewrite nth_error_app2 by lia. now rewrite Nat.sub_diag. Qed.

Lemma firstn_mid {A} (pre : list A) r : firstn (length pre) (pre ++ r) = pre.
Proof. rewrite firstn_app, Nat.sub_diag, firstn_all. cbn. apply app_nil_r. Qed.

Lemma set_nth_mid {A} (pre : list A) o r o' : set_nth (pre ++ o :: r) (length pre) o' = pre ++ o' :: r.
Proof. induction pre as [|h t IH]; cbn [app length set_nth]; [reflexivity|]. now rewrite IH. Qed.

Lemma expect_ext {A} (m : prog A) (f g : A -> Q) : (forall a, f a == g a) -> expect m f == expect m g.
Proof. intros E. unfold expect. now apply emass_ext. Qed.

Lemma sweep_is_cfg_sweep H (slot : slotfn) :
  (forall n, slot_spec H (slot n)) ->
  forall r pre s fin (f : cfg -> Q),
    check_line (propagate s pre) r = Some fin ->
    expect (sweep slot (count_ops (pre ++ r)) (propagate s pre) r) (fun '(r', _, _) => f (s, pre ++ r'))
    == expect (cfg_sweep slot (length pre) (length r) (s, pre ++ r)) f.
Proof.
  intros Hspec. induction r as [|o r IH]; intros pre s fin f Hl; cbn [sweep cfg_sweep length].
  - rewrite !expect_ret. reflexivity.
  - rewrite !expect_bind. unfold slot_at at 1. cbn [fst snd].
    rewrite nth_error_mid, firstn_mid, expect_bind.
    unfold expect at 1 3. apply emass_ext_in. intros q [o' st'] Hin. cbv beta iota.
    rewrite expect_bind. etransitivity; [|symmetry; apply expect_ret]. cbn [fst]. rewrite set_nth_mid.
    set (n := count_ops (pre ++ o :: r)) in *. set (st := propagate s pre) in *.
    (* what the slot update returned *)
    pose proof (Hspec n _ _ _ _ _ Hin) as Hs.
    assert (Hst : st' = propagate s (pre ++ [o']) /\ check_line st' r = Some fin).
    { rewrite propagate_app. cbn [propagate fold_left]. fold st. cbn [check_line] in Hl.
      destruct o as [a|].
      - fold (line_ok st a) in Hl. destruct (line_ok st a) eqn:Hok; [|discriminate].
        destruct (is_diag a) eqn:Hd.
        + assert (Hsame : apply_op st a = st).
          { unfold line_ok in Hok. rewrite !andb_true_iff in Hok. destruct Hok as [[Hr _] _]. now apply apply_diag_same. }
          rewrite Hsame in Hl. destruct Hs as [-> [->| ->]]; cbn [apply_slot]; [auto|]. now rewrite Hsame.
        + destruct Hs as [-> ->]. cbn [apply_slot]. auto.
      - destruct Hs as [-> [->|[b [_ ->]]]]; cbn [apply_slot]; [auto|].
        destruct (mk_diag_line H b st) as (_ & _ & _ & E4). now rewrite E4. }
    destruct Hst as [Est Hl'].
    assert (Hcnt : (n - occ o + occ o')%nat = count_ops ((pre ++ [o']) ++ r)).
    { unfold n. rewrite <- app_assoc. cbn [app]. rewrite !count_ops_app, !count_ops_cons. lia. }
    rewrite Hcnt, Est. rewrite Est in Hl'.
    transitivity (expect (sweep slot (count_ops ((pre ++ [o']) ++ r)) (propagate s (pre ++ [o'])) r)
                         (fun '(r', _, _) => f (s, (pre ++ [o']) ++ r'))).
    + apply expect_ext. intros [[r' n'] st'']. etransitivity; [apply expect_ret|]. rewrite <- app_assoc. reflexivity.
    + rewrite (IH (pre ++ [o']) s fin f Hl'). rewrite app_length, <- app_assoc. cbn [length app].
      rewrite Nat.add_1_r. reflexivity.
Qed.

(* a whole diagonal update seen as a kernel on configurations *)
Definition update_cfg (upd : nat -> state -> slots -> prog (slots * nat * state)) (c : cfg) : prog cfg :=
  bind (upd (length (snd c)) (fst c) (snd c)) (fun r => Ret (fst c, fst (fst r))).

Lemma pad_same L (sl : slots) : length sl = L -> pad L sl = sl.
Proof. intros <-. unfold pad. rewrite Nat.sub_diag. cbn. apply app_nil_r. Qed.

Lemma diagonal_update_is_cfg_sweep H (slotf : nat -> slotfn) s sl (f : cfg -> Q) :
  (forall L n, slot_spec H (slotf L n)) -> wf s sl = true ->
  expect (update_cfg (diagonal_update slotf) (s, sl)) f
  == expect (cfg_sweep (slotf (length sl)) 0 (length sl) (s, sl)) f.
Proof.
  intros Hspec Hwf. unfold update_cfg, diagonal_update. cbn [fst snd].
  rewrite (pad_same (length sl) sl eq_refl), firstn_all, skipn_all.
  etransitivity; [apply expect_bind|]. etransitivity; [apply expect_bind|]. cbv beta.
  unfold wf in Hwf. destruct (check_line s sl) as [fin|] eqn:El; [|discriminate].
  rewrite <- (sweep_is_cfg_sweep H (slotf (length sl)) (Hspec (length sl)) sl [] s fin f El).
  cbn [app propagate fold_left]. apply expect_ext. intros [[r' n'] st'].
  etransitivity; [apply expect_ret|]. etransitivity; [apply expect_ret|].
  cbn [fst]. rewrite app_nil_r. reflexivity.
Qed.

(* ------------------------------------------------------------------ *)
(* the two slot programs of the library satisfy [slot_good]            *)
Lemma Qsum_const {B} (c : Q) (l : list B) : Qsum (map (fun _ => c) l) == Qnat (length l) * c.
Proof.
  induction l as [|x l IH]; cbn [map Qsum fold_right length]; [unfold Qnat; cbn; ring|].
  change (fold_right Qplus 0 (map (fun _ => c) l)) with (Qsum (map (fun _ : B => c) l)). rewrite IH.
  unfold Qnat. rewrite Nat2Z.inj_succ. unfold Z.succ. rewrite inject_Z_plus' || idtac.
  assert (E : (Z.of_nat (length l) + 1 # 1) == (Z.of_nat (length l) # 1) + 1).
  { unfold Qeq, Qplus. cbn. ring. }
  rewrite E. ring.
Qed.

Lemma ratio_prob_nonpos num den : num <= 0 -> 0 < den -> ratio_prob num den == 0.
Proof.
  intros Hn Hd. unfold ratio_prob.
  replace (Qle_bool num den) with true by (symmetry; apply Qle_bool_iff; lra).
  replace (Qle_bool den 0) with false.
  2:{ symmetry. destruct (Qle_bool den 0) eqn:E; [|reflexivity]. apply Qle_bool_iff in E. lra. }
  unfold qclip. replace (Qle_bool (num / den) 0) with true; [reflexivity|].
  symmetry. apply Qle_bool_iff. unfold Qdiv.
  assert (0 < / den) by (now apply Qinv_lt_0_compat).
  setoid_replace 0 with (0 * / den) by ring. apply Qmult_le_compat_r; lra.
Qed.

Lemma qclip_nonpos q : q <= 0 -> qclip q == 0.
Proof. intros Hq. unfold qclip. replace (Qle_bool q 0) with true; [reflexivity|]. symmetry. now apply Qle_bool_iff. Qed.

Lemma met_slot_total H L n beta st o :
  (0 < h_nbonds H)%nat -> total (denote (met_slot H L n beta st o)) == 1.
Proof.
  intros Hk. unfold total, met_slot. destruct o as [a|].
  - destruct (is_diag a).
    + rewrite mass_bernratio, !mass_ret. ring.
    + rewrite mass_ret. reflexivity.
  - rewrite mass_unif.
    transitivity (Qsum (map (fun _ : nat => 1 / (Z.of_nat (h_nbonds H) # 1)) (seq 0 (h_nbonds H)))).
    + apply Qsum_ext. intros i _. rewrite mass_bernratio, !mass_ret. ring.
    + rewrite Qsum_const, seq_length. unfold Qnat. field.
      intros E. unfold Qeq in E. cbn in E. lia.
Qed.

Lemma met_slot_pos H L n beta st p o' st' b :
  0 < beta -> (n < L)%nat ->
  In (p, (o', st')) (denote (met_slot H L n beta st None)) -> o' = Some (mk_diag H b st) -> ~ p == 0 ->
  0 < diag_weight H b st.
Proof.
  intros Hbeta Hn Hin -> Hnz. unfold met_slot in Hin. cbn [denote] in Hin.
  apply in_flat_map in Hin. destruct Hin as [i [_ Hin]].
  apply in_dscale_q in Hin. destruct Hin as [p1 [-> Hin]]. cbn [denote] in Hin.
  rewrite Nnat.Nat2N.id in Hin.
  apply in_app_or in Hin.
  destruct Hin as [Hin|Hin]; apply in_dscale_q in Hin; destruct Hin as [p2 [-> Hin]];
    cbn [denote] in Hin; destruct Hin as [Hin|[]]; [|discriminate Hin].
  assert (E1 : p2 = 1) by congruence.
  assert (E2 : mk_diag H i st = mk_diag H b st) by congruence. subst p2.
  assert (Eb : i = b) by (apply (f_equal o_bond) in E2; exact E2). subst i.
  destruct (Qlt_le_dec 0 (diag_weight H b st)) as [Hw|Hw]; [exact Hw|]. exfalso. apply Hnz.
  rewrite (ratio_prob_nonpos (beta * Qnat (h_nbonds H) * diag_weight H b st) (Qnat (L - n))).
  - ring.
  - assert (0 <= Qnat (h_nbonds H)) by (unfold Qnat, Qle; cbn; lia).
    assert (0 <= beta * Qnat (h_nbonds H)) by (apply Qmult_le_0_compat; lra).
    setoid_replace 0 with (beta * Qnat (h_nbonds H) * 0) by ring.
    rewrite !(Qmult_comm (beta * Qnat (h_nbonds H))). apply Qmult_le_compat_r; assumption.
  - apply Qnat_pos. lia.
Qed.

Lemma met_slot_good H beta L :
  0 < beta -> (0 < h_nbonds H)%nat -> slot_good H beta L (fun n st o => met_slot H L n beta st o).
Proof.
  intros Hbeta Hk. constructor.
  - intros n. apply met_slot_spec.
  - intros n st o _. now apply met_slot_total.
  - intros n st p o' st' b Hn Hin Ho Hnz. eapply met_slot_pos; eauto.
  - intros n st b Hn Hb Hw. destruct (metropolis_balance H L n beta st b Hn Hb Hbeta Hw) as [Hbal _]. exact Hbal.
Qed.

Lemma Qsum_seq_nth (l : list Q) (c : Q) :
  Qsum (map (fun i => nth i l 0 * c) (seq 0 (length l))) == Qsum l * c.
Proof.
  induction l as [|x l IH]; cbn [length seq map Qsum fold_right nth]; [ring|].
  change (fold_right Qplus 0 l) with (Qsum l).
  change (fold_right Qplus 0 (map (fun i => nth i (x :: l) 0 * c) (seq 1 (length l))))
    with (Qsum (map (fun i => nth i (x :: l) 0 * c) (seq 1 (length l)))).
  rewrite <- seq_shift, map_map. cbn [nth]. rewrite IH. ring.
Qed.

Lemma hb_slot_total H L n beta st o :
  0 < beta -> total (denote (hb_slot H (bond_weights H) L n beta st o)) == 1.
Proof.
  intros Hbeta. unfold total, hb_slot. cbv zeta. destruct o as [a|].
  - destruct (is_diag a).
    + rewrite mass_bern, !mass_ret. ring.
    + rewrite mass_ret. reflexivity.
  - rewrite mass_bern, mass_ret. fold (hb_cands H (bond_weights H) st).
    set (Wt := Qsum (bond_weights H)).
    assert (HW : 0 <= Wt) by (apply Qsum_nonneg, bond_weights_nonneg).
    destruct (Qlt_le_dec 0 Wt) as [Hpos|Hle].
    + assert (E : mass (fun _ => true) (denote (ChooseAcc (hb_cands H (bond_weights H) st)
                   (fun r => Ret (match r with Some b => Some (mk_diag H b st) | None => None end, st)))) == 1).
      { rewrite mass_chooseacc, hb_cands_length, hb_cands_fst. fold Wt.
        transitivity (Qsum (map (fun i => nth i (bond_weights H) 0 * / Wt) (seq 0 (length (bond_weights H))))).
        - apply Qsum_ext. intros i Hi. apply in_seq in Hi. rewrite hb_cands_nth by lia.
          cbv beta iota zeta. rewrite !mass_ret. unfold Qdiv. ring.
        - rewrite Qsum_seq_nth. fold Wt. field. lra. }
      rewrite E. ring.
    + assert (E0 : Wt == 0) by lra.
      rewrite (qclip_nonpos (beta * Wt / (Qnat (L - n) + beta * Wt))); [ring|].
      setoid_replace (beta * Wt) with 0 by (rewrite E0; ring). unfold Qdiv. rewrite Qmult_0_l. lra.
Qed.

Lemma hb_slot_pos H L n beta st p o' st' b :
  In (p, (o', st')) (denote (hb_slot H (bond_weights H) L n beta st None)) ->
  o' = Some (mk_diag H b st) -> ~ p == 0 -> 0 < diag_weight H b st.
Proof.
  intros Hin -> Hnz. unfold hb_slot in Hin. cbv zeta in Hin. cbn [denote] in Hin.
  fold (hb_cands H (bond_weights H) st) in Hin.
  apply in_app_or in Hin. destruct Hin as [Hin|Hin]; apply in_dscale_q in Hin; destruct Hin as [p1 [-> Hin]].
  2:{ cbn [denote] in Hin. destruct Hin as [Hin|[]]. discriminate Hin. }
  apply in_flat_map in Hin. destruct Hin as [i [Hi Hin]]. apply in_seq in Hi.
  rewrite hb_cands_length in Hi. rewrite hb_cands_nth in Hin by lia.
  apply in_app_or in Hin.
  destruct Hin as [Hin|Hin]; apply in_dscale_q in Hin; destruct Hin as [p2 [-> Hin]];
    cbn [denote] in Hin; destruct Hin as [Hin|[]]; [|discriminate Hin].
  assert (E2 : mk_diag H i st = mk_diag H b st) by congruence.
  assert (Eb : i = b) by (apply (f_equal o_bond) in E2; exact E2). subst i.
  destruct (Qlt_le_dec 0 (diag_weight H b st)) as [Hw|Hw]; [exact Hw|]. exfalso. apply Hnz.
  set (mw := nth b (bond_weights H) 0) in *.
  assert (Eacc : (if Qle_bool mw 0 then 0 else qclip (diag_weight H b st / mw)) == 0).
  { destruct (Qle_bool mw 0) eqn:E; [reflexivity|].
    assert (Hmw : 0 < mw).
    { destruct (Qlt_le_dec 0 mw) as [Hm|Hm]; [exact Hm|]. apply Qle_bool_iff in Hm. congruence. }
    apply qclip_nonpos. unfold Qdiv.
    assert (0 < / mw) by (now apply Qinv_lt_0_compat).
    setoid_replace 0 with (0 * / mw) by ring. apply Qmult_le_compat_r; lra. }
  rewrite Eacc. ring.
Qed.

Lemma hb_slot_good H beta L :
  0 < beta -> slot_good H beta L (fun n st o => hb_slot H (bond_weights H) L n beta st o).
Proof.
  intros Hbeta. constructor.
  - intros n. apply hb_slot_spec.
  - intros n st o _. now apply hb_slot_total.
  - intros n st p o' st' b Hn Hin Ho Hnz. eapply hb_slot_pos; eauto.
  - intros n st b Hn Hb Hw. destruct (heatbath_balance H L n beta st b Hn Hb Hbeta Hw) as [Hbal _]. exact Hbal.
Qed.

(* ------------------------------------------------------------------ *)
(* the theorems: the SSE weight is stationary under a whole diagonal update *)
Theorem diagonal_update_stationary H beta L (slotf : nat -> slotfn) xs :
  0 < beta -> (forall L', slot_good H beta L' (slotf L')) -> space_ok H L xs ->
  wstat xs (W H beta) (update_cfg (diagonal_update slotf)).
Proof.
  intros Hbeta Hsg Hxs.
  apply (wstat_ext_in xs (W H beta) (cfg_sweep (slotf L) 0 L)).
  - intros [s sl] f Hx. destruct (sp_good H L xs Hxs _ Hx) as [Hg HL]. cbn [snd] in HL.
    unfold good in Hg. cbn [fst snd] in Hg. apply andb_true_iff in Hg. destruct Hg as [Hwf _].
    rewrite (diagonal_update_is_cfg_sweep H slotf s sl f); [rewrite HL; reflexivity| |exact Hwf].
    intros L' n. apply (sg_spec H beta L' (slotf L') (Hsg L')).
  - apply (cfg_sweep_stationary H beta L (slotf L) (Hsg L) Hbeta xs Hxs).
Qed.

Theorem metropolis_update_stationary H beta L xs :
  0 < beta -> (0 < h_nbonds H)%nat -> space_ok H L xs ->
  wstat xs (W H beta) (update_cfg (met_update H beta)).
Proof.
  intros Hbeta Hk Hxs. unfold met_update.
  apply (diagonal_update_stationary H beta L (fun L n st o => met_slot H L n beta st o) xs Hbeta); [|exact Hxs].
  intros L'. now apply met_slot_good.
Qed.

Theorem heatbath_update_stationary H beta L xs :
  0 < beta -> space_ok H L xs ->
  wstat xs (W H beta) (update_cfg (hb_update H (bond_weights H) beta)).
Proof.
  intros Hbeta Hxs. unfold hb_update.
  apply (diagonal_update_stationary H beta L (fun L n st o => hb_slot H (bond_weights H) L n beta st o) xs Hbeta); [|exact Hxs].
  intros L'. now apply hb_slot_good.
Qed.

(* ------------------------------------------------------------------ *)
(* the canonical configuration space: EVERY consistent legal configuration of length L over a
   given list of p = 0 states — so the hypotheses of the theorems above are satisfiable for every
   Hamiltonian, cutoff and state list *)
Fixpoint all_lists {X} (A : list X) (L : nat) : list (list X) :=
  match L with
  | O => [[]]
  | S k => flat_map (fun x => map (cons x) (all_lists A k)) A
  end.

Lemma all_lists_complete {X} (A : list X) l : Forall (fun x => In x A) l -> In l (all_lists A (length l)).
Proof.
  induction 1 as [|x l Hx Hl IH]; cbn [length all_lists]; [now left|].
  apply in_flat_map. exists x. split; [exact Hx|]. now apply in_map.
Qed.

Lemma all_lists_length {X} (A : list X) L : forall l, In l (all_lists A L) -> length l = L.
Proof.
  induction L as [|k IH]; intros l Hin; cbn [all_lists] in Hin.
  - destruct Hin as [<-|[]]. reflexivity.
  - apply in_flat_map in Hin. destruct Hin as [x [_ Hin]]. apply in_map_iff in Hin.
    destruct Hin as [t [<- Ht]]. cbn. now rewrite (IH t Ht).
Qed.

Definition op_alphabet (H : ham) : list op :=
  flat_map (fun b =>
    let k := length (h_vars H b) in
    flat_map (fun i => map (fun o => mkOp (h_vars H b) b i o (h_const H b)) (all_substates k)) (all_substates k))
    (seq 0 (h_nbonds H)).

Lemma op_alphabet_complete H a : op_legal H a = true -> In a (op_alphabet H).
Proof.
  unfold op_legal. rewrite !andb_true_iff. intros [[[[[Hb Hv] Hc] Hi] Ho] _].
  apply Nat.ltb_lt in Hb. apply nats_eqb_eq in Hv. apply eqb_prop in Hc.
  apply Nat.eqb_eq in Hi. apply Nat.eqb_eq in Ho.
  destruct a as [vs b i o c]. cbn [o_vars o_bond o_in o_out o_const] in *. subst vs c.
  unfold op_alphabet. apply in_flat_map. exists b. split; [apply in_seq; lia|]. cbv zeta.
  apply in_flat_map. exists i. split; [now apply all_substates_complete|].
  apply in_map_iff. exists o. split; [reflexivity|now apply all_substates_complete].
Qed.

Definition cfg_eq_dec (a b : cfg) : {a = b} + {a <> b}.
Proof.
  destruct (cfg_eqb a b) eqn:E.
  - left. now apply cfg_eqb_ok.
  - right. intros Hab. apply cfg_eqb_ok in Hab. congruence.
Defined.

Definition slot_alphabet (H : ham) : list (option op) := None :: map Some (op_alphabet H).

Definition canon (H : ham) (sts : list state) (L : nat) : list cfg :=
  nodup cfg_eq_dec (filter (good H) (list_prod sts (all_lists (slot_alphabet H) L))).

Lemma legal_slots_in_alphabet H sl : all_legal H sl = true -> Forall (fun x => In x (slot_alphabet H)) sl.
Proof.
  unfold all_legal. rewrite forallb_forall. intros Hl. apply Forall_forall. intros [a|] Hin.
  - right. apply in_map. apply op_alphabet_complete. apply (Hl (Some a) Hin).
  - now left.
Qed.

Theorem canon_complete H sts s sl :
  In s sts -> good H (s, sl) = true -> In (s, sl) (canon H sts (length sl)).
Proof.
  intros Hs Hg. unfold canon. apply nodup_In. apply filter_In. split; [|exact Hg].
  apply in_prod; [exact Hs|]. apply all_lists_complete. apply legal_slots_in_alphabet.
  unfold good in Hg. cbn [fst snd] in Hg. apply andb_true_iff in Hg. apply Hg.
Qed.

Theorem canon_space_ok H sts L : space_ok H L (canon H sts L).
Proof.
  constructor.
  - apply NoDup_nodup.
  - intros [s sl] Hin. unfold canon in Hin. apply nodup_In in Hin. apply filter_In in Hin.
    destruct Hin as [Hin Hg]. split; [exact Hg|]. apply in_prod_iff in Hin. destruct Hin as [_ Hin].
    cbn [snd]. now apply all_lists_length in Hin.
  - intros s sl p o' Hin Hg.
    assert (HL : length sl = L).
    { unfold canon in Hin. apply nodup_In in Hin. apply filter_In in Hin. destruct Hin as [Hin _].
      apply in_prod_iff in Hin. destruct Hin as [_ Hin]. now apply all_lists_length in Hin. }
    assert (Hs : In s sts).
    { unfold canon in Hin. apply nodup_In in Hin. apply filter_In in Hin. destruct Hin as [Hin _].
      apply in_prod_iff in Hin. apply Hin. }
    rewrite <- HL, <- (set_nth_length sl p o'). now apply canon_complete.
Qed.

(* unconditional forms: for every Hamiltonian, inverse temperature, cutoff and list of states *)
Corollary metropolis_update_stationary_canon H beta L sts :
  0 < beta -> (0 < h_nbonds H)%nat ->
  wstat (canon H sts L) (W H beta) (update_cfg (met_update H beta)).
Proof. intros Hb Hk. apply (metropolis_update_stationary H beta L); auto. apply canon_space_ok. Qed.

Corollary heatbath_update_stationary_canon H beta L sts :
  0 < beta -> wstat (canon H sts L) (W H beta) (update_cfg (hb_update H (bond_weights H) beta)).
Proof. intros Hb. apply (heatbath_update_stationary H beta L); auto. apply canon_space_ok. Qed.

(* read at a point: the probability flow into every configuration equals its weight *)
Corollary metropolis_update_stationary_pointwise H beta L sts y :
  0 < beta -> (0 < h_nbonds H)%nat -> In y (canon H sts L) ->
  Qsum (map (fun x => W H beta x * mass (cfg_eqb y) (denote (update_cfg (met_update H beta) x))) (canon H sts L))
  == W H beta y.
Proof.
  intros Hb Hk Hy. apply (wstat_pointwise cfg_eqb cfg_eqb_ok); [apply NoDup_nodup|exact Hy|].
  now apply metropolis_update_stationary_canon.
Qed.

Corollary heatbath_update_stationary_pointwise H beta L sts y :
  0 < beta -> In y (canon H sts L) ->
  Qsum (map (fun x => W H beta x * mass (cfg_eqb y) (denote (update_cfg (hb_update H (bond_weights H) beta) x))) (canon H sts L))
  == W H beta y.
Proof.
  intros Hb Hy. apply (wstat_pointwise cfg_eqb cfg_eqb_ok); [apply NoDup_nodup|exact Hy|].
  now apply heatbath_update_stationary_canon.
Qed.

(* ------------------------------------------------------------------ *)
(* a concrete instance (used by the non-vacuity examples): two spins, an antiferromagnetic bond with
   weights (0, 2) and a constant single-site term with weight 1 in all four entries *)
Definition ex_ham : ham := mkHam 2
  (fun b => match b with O => [0; 1]%nat | _ => [0%nat] end)
  (fun b => match b with O => false | _ => true end)
  (fun b i o => match b with
     | O => if bools_eqb i o then (match i with [a; c] => if Bool.eqb a c then 0 else 2 | _ => 0 end) else 0
     | _ => 1
     end).
