(* Positivity / legality of stored operators is kept by the spin-flip updates (C07, C04, C06):
   - the directed loop produces an operator of non-positive weight with probability exactly 0;
   - a cluster flip keeps every stored operator legal. *)
From Coq Require Import List QArith ZArith NArith Bool Arith Lia Lqa.
From QmcV Require Import Model.Prog Model.Sse Model.Nav Model.Cluster Model.ClusterValid Model.Loop
     Proofs.ProgLemmas Proofs.DiagonalProofs Proofs.WorldLine Proofs.ClusterProofs Proofs.ClusterFlipProofs Proofs.LoopProofs.
Import ListNotations.
Open Scope Q_scope.

Definition pos_slot (H : ham) (s : option op) : bool :=
  match s with Some o => negb (Qle_bool (op_weight H o) 0) | None => true end.
Definition all_positive (H : ham) (sl : slots) : bool := forallb (pos_slot H) sl.

Lemma forallb_set_nth {A} (P : A -> bool) (l : list A) i x :
  forallb P l = true -> P x = true -> forallb P (set_nth l i x) = true.
Proof.
  revert i. induction l as [|h t IH]; intros i Hl Hx; cbn in *; [reflexivity|].
  apply andb_true_iff in Hl. destruct Hl as [Hh Ht].
  destruct i; cbn; apply andb_true_iff; split; auto.
Qed.

Lemma mass_choose {A} (P : A -> bool) ws (f : nat -> prog A) :
  mass P (denote (Choose ws f))
  == Qsum (map (fun i => nth i ws 0 / Qsum ws * mass P (denote (f i))) (seq 0 (length ws))).
Proof.
  cbn [denote]. rewrite mass_flat_map. apply Qsum_ext. intros i _. rewrite mass_dscale. reflexivity.
Qed.

Lemma mass_bit {A} (P : A -> bool) (f : bool -> prog A) :
  mass P (denote (Bit f)) == (1 # 2) * mass P (denote (f true)) + (1 # 2) * mass P (denote (f false)).
Proof. cbn [denote]. rewrite mass_app, !mass_dscale. reflexivity. Qed.

Definition nonneg_ham (H : ham) : Prop := forall b i o, 0 <= h_weight H b i o.

(* outcome is bad if it stores an operator of non-positive weight *)
Definition bad (H : ham) (r : option (slots * state)) : bool :=
  match r with Some (sl, _) => negb (all_positive H sl) | None => false end.

Lemma bad_good H sl st : all_positive H sl = true -> bad H (Some (sl, st)) = false.
Proof. intros E. cbn. now rewrite E. Qed.

Lemma mass_bad_none H : mass (bad H) (denote (Ret None)) == 0.
Proof. rewrite mass_ret. reflexivity. Qed.

Lemma mass_bad_good H sl st : all_positive H sl = true -> mass (bad H) (denote (Ret (Some (sl, st)))) == 0.
Proof. intros E. rewrite mass_ret, bad_good by exact E. reflexivity. Qed.

Lemma loop_steps_positive (H : ham) (Hnn : nonneg_ham H) init : forall fuel pos ent sl st,
  all_positive H sl = true ->
  mass (bad H) (denote (loop_steps fuel H init pos ent sl st)) == 0.
Proof.
  induction fuel as [|f IH]; intros pos ent sl st Hpos; cbn [loop_steps].
  - apply mass_bad_none.
  - destruct (get_op sl pos) as [o|] eqn:Hg; [|apply mass_bad_none].
    rewrite mass_choose. apply Qsum_all_zero. intros k Hk.
    rewrite map_length in Hk.
    set (legs := all_legs (length (o_vars o))) in *.
    apply in_seq in Hk.
    rewrite (nth_map_lt (fun l => leg_weight H o ent l) legs k 0 (0%nat, Inputs)) by lia.
    set (ex := nth k legs (0%nat, Inputs)).
    destruct (Qle_bool (leg_weight H o ent ex) 0) eqn:Ez.
    + (* weight 0: chosen with probability 0 *)
      apply Qle_bool_iff in Ez.
      assert (E0 : leg_weight H o ent ex == 0).
      { unfold leg_weight in *. destruct (adjust (o_in o) (o_out o) ent) as [i1 o1].
        destruct (adjust i1 o1 ex) as [i2 o2]. pose proof (Hnn (o_bond o) i2 o2). lra. }
      rewrite E0. unfold Qdiv. rewrite Qmult_0_l, Qmult_0_l. reflexivity.
    + (* positive: the new string is all positive, continue *)
      assert (Hpos' : all_positive H (set_nth sl pos (Some (pass_through o ent ex))) = true).
      { apply forallb_set_nth; [exact Hpos|]. cbn [pos_slot].
        rewrite <- leg_weight_is_new_weight. now rewrite Ez. }
      assert (Z : mass (bad H) (denote
         (let exit := ex in
          let o' := pass_through o ent exit in
          let sl' := set_nth sl pos (Some o') in
          if pl_eqb (pos, exit) init then Ret (Some (sl', st))
          else
            let var := nth (fst exit) (o_vars o') 0%nat in
            let direct := if snd exit then next_for_var sl' pos var else prev_for_var sl' pos var in
            let '(nxt, st') :=
              match direct with
              | Some x => (Some x, st)
              | None =>
                  (if snd exit then first_for_var sl' var else last_for_var sl' var,
                   set_nth st var (nth (fst exit) (if snd exit then o_out o' else o_in o') false))
              end in
            match nxt with
            | None => Ret None
            | Some (q, relq) =>
                let ent' := (relq, negb (snd exit)) in
                if pl_eqb (q, ent') init then Ret (Some (sl', st'))
                else loop_steps f H init q ent' sl' st'
            end)) == 0).
      { cbv zeta.
        destruct (pl_eqb (pos, ex) init); [now apply mass_bad_good|].
        match goal with |- context [let '(nxt, st') := ?X in _] => destruct X as [nxt st'] end.
        destruct nxt as [[q relq]|]; [|apply mass_bad_none].
        destruct (pl_eqb (q, (relq, negb (snd ex))) init); [now apply mass_bad_good|].
        apply IH. exact Hpos'. }
      cbv zeta in Z. cbv zeta. fold legs. fold ex. rewrite Z. ring.
Qed.

(* the whole loop update (start operator and leg drawn uniformly) *)
Theorem loop_update_positive (H : ham) fuel sl st :
  nonneg_ham H -> all_positive H sl = true ->
  mass (bad H) (denote (loop_update fuel H sl st)) == 0.
Proof.
  intros Hnn Hpos. unfold loop_update.
  destruct (Nat.eqb (count_ops sl) 0); [now apply mass_bad_good|].
  destruct (Nat.eqb (length (var_slots sl)) 0); [now apply mass_bad_good|].
  rewrite mass_unif. apply Qsum_all_zero. intros i _.
  match goal with |- context [get_op sl ?p] => destruct (get_op sl p) as [o|] end;
    [|rewrite mass_bad_none; ring].
  match goal with |- context [Nat.ltb ?a ?b] => destruct (Nat.ltb a b) end; [|rewrite mass_bad_none; ring].
  rewrite mass_bit.
  rewrite !(loop_steps_positive H Hnn) by exact Hpos. ring.
Qed.

(* ---------------- cluster flips keep legality ---------------- *)
Lemma xmap_length f l : length (xmap f l) = length l.
Proof. unfold xmap. apply map_length. Qed.

Lemma Qle_bool_comp a b : a == b -> Qle_bool a 0 = Qle_bool b 0.
Proof.
  intros E. destruct (Qle_bool a 0) eqn:Ea, (Qle_bool b 0) eqn:Eb; try reflexivity.
  - apply Qle_bool_iff in Ea. rewrite E in Ea. apply Qle_bool_iff in Ea. congruence.
  - apply Qle_bool_iff in Eb. rewrite <- E in Eb. apply Qle_bool_iff in Eb. congruence.
Qed.

Lemma flip_slot_legal H flips ab o :
  (is_edge o || onat_eqb (fst ab) (snd ab))%bool = true ->
  (if is_edge o then edge_free H o
   else flip_sym H o \/ match fst ab with Some a => nth a flips false = false | None => True end) ->
  op_legal H o = true ->
  match flip_slot flips ab (Some o) with Some o' => op_legal H o' = true | None => False end.
Proof.
  intros Hs Hw Hl.
  pose proof (op_weight_flip H flips ab o Hs Hw) as Ew.
  destruct ab as [[a|] [c|]]; cbn [flip_slot] in *; try exact Hl.
  set (o' := flip_op (nth a flips false) (nth c flips false) o) in *.
  rewrite !weight_product_cons in Ew. cbn [weight_product fold_right] in Ew. rewrite !Qmult_1_r in Ew.
  unfold op_legal in *.
  unfold o'. rewrite flip_op_bond, flip_op_vars, flip_op_const, flip_op_in, flip_op_out, !xmap_length.
  fold o'. rewrite (Qle_bool_comp _ _ Ew). exact Hl.
Qed.

Lemma flip_zip_legal H flips : forall sl b,
  sides_ok sl b = true -> weight_hyp H flips sl b -> all_legal H sl = true ->
  all_legal H (flip_zip flips sl b) = true.
Proof.
  induction sl as [|x r IH]; intros b Hs Hw Hl; cbn [flip_zip]; [reflexivity|].
  unfold all_legal in *. cbn [forallb] in *. apply andb_true_iff in Hl. destruct Hl as [Hx Hr].
  destruct x as [o|].
  - cbn [sides_ok] in Hs. apply andb_true_iff in Hs. destruct Hs as [Hs1 Hs2].
    cbn [weight_hyp] in Hw. destruct Hw as [Hw1 Hw2].
    pose proof (flip_slot_legal H flips (bhd b) o Hs1 Hw1 Hx) as E.
    destruct (flip_slot flips (bhd b) (Some o)) as [o'|]; [|contradiction].
    apply andb_true_iff. split; [exact E|]. now apply IH.
  - cbn [sides_ok] in Hs. cbn [weight_hyp] in Hw.
    replace (flip_slot flips (bhd b) None) with (@None op) by (destruct (bhd b) as [[a|] [c|]]; reflexivity).
    apply andb_true_iff. split; [reflexivity|]. now apply IH.
Qed.

Theorem cluster_flip_legal H sl st b flips :
  sides_ok sl b = true -> weight_hyp H flips sl b -> all_legal H sl = true ->
  all_legal H (fst (apply_flips sl st b flips)) = true.
Proof. intros Hs Hw Hl. rewrite apply_flips_closed. cbn [fst]. now apply flip_zip_legal. Qed.

Theorem cluster_flip_legal_uniform H sl st b flips :
  (forall o, In (Some o) sl -> is_edge o = false -> flip_sym H o) ->
  (forall o, In (Some o) sl -> is_edge o = true -> edge_free H o) ->
  sides_ok sl b = true -> all_legal H sl = true ->
  all_legal H (fst (apply_flips sl st b flips)) = true.
Proof. intros H1 H2 Hs Hl. apply cluster_flip_legal; [exact Hs| |exact Hl]. now apply weight_hyp_uniform. Qed.

(* the generic sampler's Hamiltonian has non-negative weights when every stored matrix has *)
From QmcV Require Import Model.Ham Proofs.HamProofs.

Theorem qmc_ham_nonneg (bonds : list interaction) :
  (forall i, In i bonds -> Forall (fun q => 0 <= q) (it_mat i)) -> nonneg_ham (qmc_ham bonds).
Proof.
  intros Hb b i o. cbn [qmc_ham h_weight]. unfold inter_weight.
  destruct (nth_error bonds b) as [it|] eqn:E; [|lra].
  destruct (inter_at it i o) as [q|] eqn:Ea; [|lra].
  eapply inter_at_nonneg; [|exact Ea]. apply Hb. eapply nth_error_In; eauto.
Qed.
