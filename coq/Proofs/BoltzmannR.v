(* Metropolis acceptance with the true Boltzmann factor satisfies detailed balance.
   Uses the standard library's real numbers (their axioms are named in DESIGN.md section 6). *)
From Coq Require Import Reals Lra.
Open Scope R_scope.

Lemma exp_le_1 d : 0 <= d -> exp (- d) <= 1.
Proof.
  intros Hd. rewrite <- exp_0. destruct (Req_dec d 0) as [->|Hne].
  - rewrite Ropp_0. lra.
  - left. apply exp_increasing. lra.
Qed.

Lemma exp_ge_1 d : 0 <= d -> 1 <= exp d.
Proof.
  intros Hd. rewrite <- exp_0. destruct (Req_dec d 0) as [->|Hne].
  - lra.
  - left. apply exp_increasing. lra.
Qed.

(* pi(s) A(s -> s') = pi(s') A(s' -> s) for pi = exp(-beta E), A = min(1, exp(-beta dE)) *)
Lemma metropolis_balance_R beta E E' :
  exp (- (beta * E)) * Rmin 1 (exp (- (beta * (E' - E))))
  = exp (- (beta * E')) * Rmin 1 (exp (- (beta * (E - E')))).
Proof.
  set (d := beta * (E' - E)).
  replace (beta * (E - E')) with (- d) by (unfold d; lra).
  replace (- (beta * E')) with (- (beta * E) + - d) by (unfold d; lra).
  rewrite exp_plus, Ropp_involutive.
  destruct (Rle_dec 0 d) as [Hd|Hd].
  - rewrite (Rmin_right 1 (exp (- d))) by (apply exp_le_1; exact Hd).
    rewrite (Rmin_left 1 (exp d)) by (apply exp_ge_1; exact Hd). lra.
  - assert (Hd' : 0 <= - d) by lra.
    rewrite (Rmin_left 1 (exp (- d))) by (apply exp_ge_1; exact Hd').
    pose proof (exp_le_1 (- d) Hd') as H. rewrite Ropp_involutive in H.
    rewrite (Rmin_right 1 (exp d)) by exact H.
    rewrite Rmult_assoc, <- exp_plus. replace (- d + d) with 0 by lra. rewrite exp_0. lra.
Qed.

(* with a proposal probability q that does not depend on the direction (state-independent
   selection of the spin / edge), the full transition probabilities balance *)
Lemma move_balance_R beta q E E' :
  exp (- (beta * E)) * (q * Rmin 1 (exp (- (beta * (E' - E)))))
  = exp (- (beta * E')) * (q * Rmin 1 (exp (- (beta * (E - E'))))).
Proof.
  pose proof (metropolis_balance_R beta E E') as H.
  replace (exp (- (beta * E)) * (q * Rmin 1 (exp (- (beta * (E' - E))))))
    with (q * (exp (- (beta * E)) * Rmin 1 (exp (- (beta * (E' - E)))))) by ring.
  rewrite H. ring.
Qed.
