(* The worm move of the classical sampler (graph.rs do_worm_flip), as transcribed in Model/Classical.v.
   The full statement of C19 — Boltzmann stationarity for every offered move set — is FALSE of the
   faithful model: on a two-spin graph the worm move goes from a state to a state of strictly HIGHER
   reported energy with probability 1 (no acceptance draw at all), whatever acceptance function is
   plugged in and whatever beta; no kernel reversible w.r.t. exp(-beta E) can do that.
   What does hold for the worm: it never changes the number of spins. *)
From Coq Require Import List QArith ZArith NArith Bool Arith Lia Lqa Reals Lra.
From QmcV Require Import Model.Prog Model.Sse Model.Classical Proofs.ProgLemmas Proofs.SseWeight
     Proofs.ClassicalProofs Proofs.ProgSafety.
Import ListNotations.

Definition worm_g : cgraph := mkCGraph [(0%nat, 1%nat, 1%Q)] [(1 # 2)%Q; (1 # 2)%Q].
Definition worm_up : state := [true; true].
Definition worm_down : state := [false; false].

Lemma worm_energy_uphill : (energy worm_g worm_up < energy worm_g worm_down)%Q.
Proof. vm_compute. reflexivity. Qed.

(* every leaf of the worm move started in [up; up] is [down; down]: accepted without any draw,
   for every acceptance-bound function and every beta *)
Lemma worm_always_goes_uphill acc beta :
  all_out_r (fun s' => bools_eqb s' worm_down = true) (worm_move acc worm_g beta worm_up).
Proof. apply check_all_sound. vm_compute. reflexivity. Qed.

Lemma worm_total_one acc beta : total (denote (worm_move acc worm_g beta worm_up)) == 1.
Proof. vm_compute. reflexivity. Qed.

(* ... hence with probability exactly 1 *)
Theorem worm_uphill_probability_one acc beta :
  mass (fun s' => bools_eqb s' worm_down) (denote (worm_move acc worm_g beta worm_up)) == 1.
Proof.
  rewrite mass_all_out_r; [apply worm_total_one|apply worm_always_goes_uphill].
Qed.

(* A kernel that is reversible w.r.t. exp(-beta E) cannot move uphill with probability 1:
   pi(s) * 1 = pi(s') * p with p <= 1 forces E(s') <= E(s). *)
Lemma reversible_cannot_go_uphill_surely (beta E E' p : R) :
  (0 < beta)%R -> (E < E')%R -> (0 <= p <= 1)%R ->
  (exp (- (beta * E)) * 1 <> exp (- (beta * E')) * p)%R.
Proof.
  intros Hb HE [Hp0 Hp1] Heq.
  assert (Hlt : (exp (- (beta * E')) < exp (- (beta * E)))%R).
  { apply exp_increasing. nra. }
  pose proof (exp_pos (- (beta * E'))) as Hpos.
  assert ((exp (- (beta * E')) * p <= exp (- (beta * E')))%R) by nra.
  lra.
Qed.

(* The refutation, with its witness: *)
Theorem worm_refuted :
  exists (g : cgraph) (s s' : state),
    (energy g s < energy g s')%Q
    /\ forall acc beta, mass (fun x => bools_eqb x s') (denote (worm_move acc g beta s)) == 1.
Proof.
  exists worm_g, worm_up, worm_down. split; [exact worm_energy_uphill|].
  intros acc beta. apply worm_uphill_probability_one.
Qed.

(* ------------------------------------------------------------------ *)
(* What the worm does keep: the number of spins, for every sequence of draws. *)
Lemma flip_len s i : length (flip s i) = length s.
Proof. unfold flip. apply set_nth_len. Qed.

Lemma wm_apply_len s m : length (wm_apply s m) = length s.
Proof. destruct m; cbn [wm_apply]; now rewrite ?flip_len. Qed.

Lemma fold_flip_len l : forall s, length (fold_left flip l s) = length s.
Proof. induction l as [|x r IH]; intros s; cbn [fold_left]; [reflexivity|]. now rewrite IH, flip_len. Qed.

Lemma worm_walk_len g e0 : forall fuel path sel last s,
  all_out (fun '(_, s', _) => length s' = length s) (worm_walk fuel g e0 path sel last s).
Proof.
  induction fuel as [|f IH]; intros path sel last s; cbn [worm_walk]; [reflexivity|].
  set (cands := worm_candidates g s (wm_last sel) last e0).
  set (stack := if existsb _ cands then _ else cands).
  assert (Hc : forall ov de,
             all_out (fun '(_, s', _) => length s' = length s)
                     (let s' := wm_apply s ov in
                      let path' := path ++ [ov] in
                      let last' := match ov, sel with
                                   | WS _, WS v => v
                                   | WS _, WD _ v => v
                                   | WD v _, _ => v
                                   end in
                      if qzero (de + e0) then Ret (path', s', false)
                      else if Nat.ltb (length s) (length path') then Ret (path', s', true)
                      else worm_walk f g e0 path' ov last' s')).
  { intros ov de. cbv zeta. destruct (qzero (de + e0)); [cbn; apply wm_apply_len|].
    destruct (Nat.ltb _ _); [cbn; apply wm_apply_len|].
    eapply all_out_weaken; [|apply IH]. intros [[p' s'] b'] H. rewrite H. apply wm_apply_len. }
  destruct stack as [|c0 cs] eqn:Es.
  - apply Hc.
  - cbn [all_out]. intros cN. destruct (nth_error (c0 :: cs) (N.to_nat cN)) as [[[ov de] r]|]; [apply Hc|reflexivity].
Qed.

Theorem worm_keeps_spin_count acc g beta s :
  all_out (fun s' => length s' = length s) (worm_move acc g beta s).
Proof.
  unfold worm_move. cbn [all_out]. intros iN.
  eapply all_out_bind; [apply worm_walk_len|].
  intros [[path s2] failed] H. rewrite flip_len in H.
  destruct failed; [cbn; now rewrite fold_flip_len|].
  unfold should_flip. destruct (Qle_bool _ 0); [cbn; exact H|].
  destruct (acc _) as [lo hi]. cbn [all_out]. intros [|]; cbn; [exact H|now rewrite fold_flip_len].
Qed.
