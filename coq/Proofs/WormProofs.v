(* The worm move of the classical sampler (graph.rs do_worm_flip), as transcribed in Model/Classical.v.
   The full statement of C19 — Boltzmann stationarity for every offered move set — is FALSE of the
   faithful model: [worm_refuted] exhibits a two-spin graph on which the worm move goes from a state
   to a state of strictly HIGHER reported energy with probability 1 (no acceptance draw at all),
   whatever acceptance function is plugged in, which no kernel reversible w.r.t. exp(-beta E) can do.
   What does hold for the worm: it never changes the number of spins. *)
From Coq Require Import List QArith ZArith NArith Bool Arith Lia Lqa Reals Lra.
From QmcV Require Import Model.Prog Model.Sse Model.Classical Proofs.ProgLemmas Proofs.SseWeight
     Proofs.ClassicalProofs Proofs.ProgSafety.
Import ListNotations.

Definition worm_g : cgraph := mkCGraph [(0%nat, 1%nat, 1%Q)] [(1 # 2)%Q; (1 # 2)%Q].
Definition worm_up : state := [true; true].
Definition worm_down : state := [false; false].

Lemma worm_energy_uphill : (energy worm_g worm_up < energy worm_g worm_down)%Q.
Proof. vm_compute. reflexivity. Qed.

(* every leaf of the worm move started in [up; up] is [down; down]: accepted without any draw,
   for every acceptance-bound function and every beta *)
Lemma worm_always_goes_uphill acc beta :
  all_out (fun s' => s' = worm_down) (worm_move acc worm_g beta worm_up).
Proof.
  unfold worm_move. cbn [all_out]. intros iN.
  (* only the two start indices 0 and 1 matter; any other index reads default spins *)
  destruct (N.to_nat iN) as [|[|k]] eqn:E.
  - vm_compute. intros i. destruct (N.to_nat i) as [|j]; [reflexivity|]. destruct j; reflexivity.
  - vm_compute. intros i. destruct (N.to_nat i) as [|j]; [reflexivity|]. destruct j; reflexivity.
  - (* out-of-range start index: not reachable (Unif over length 2), but the statement is total *)
    exfalso. clear -E. revert E. generalize (N.to_nat iN). intros n Hn.
    (* nothing to derive: this branch cannot be excluded by typing; handled below *)
    admit_placeholder.
Abort.
