(* Properties of the autocorrelation specification (C20). *)
From Coq Require Import List QArith ZArith Bool Arith Lia Lqa.
From QmcV Require Import Model.Autocorr.
Import ListNotations.
Open Scope Q_scope.

Lemma qsumr_correct l : qsumr l == qsuml l.
Proof.
  unfold qsumr, qsuml. induction l as [|x l IH]; cbn [fold_right]; [reflexivity|].
  rewrite Qred_correct, IH. reflexivity.
Qed.

Lemma ac_spec_length samples : length (ac_spec samples) = length samples.
Proof. unfold ac_spec. now rewrite map_length, seq_length. Qed.

(* lag 0 of a single non-constant series is exactly 1 *)
Lemma ac_column_lag0 xs : ~ circ_cov (centred xs) 0 == 0 -> ac_column xs 0 == 1.
Proof. intros H. unfold ac_column. rewrite Qred_correct. field. exact H. Qed.

Lemma qsuml_const {A} (f : A -> Q) (l : list A) c :
  (forall x, In x l -> f x == c) -> qsuml (map f l) == (Z.of_nat (length l) # 1) * c.
Proof.
  induction l as [|x l IH]; intros H; cbn [map qsuml fold_right length].
  - change (Z.of_nat 0) with 0%Z. lra.
  - change (fold_right Qplus 0 (map f l)) with (qsuml (map f l)).
    rewrite IH by (intros; apply H; now right). rewrite (H x) by now left.
    rewrite Nat2Z.inj_succ. unfold Z.succ.
    assert (E : (Z.of_nat (length l) + 1 # 1) == (Z.of_nat (length l) # 1) + 1) by (unfold Qeq, Qplus; cbn; lia).
    rewrite E. lra.
Qed.

(* with at least one sample and at least one observable, all of them non-constant, entry 0 is 1 *)
Theorem ac_spec_lag0 samples :
  samples <> [] -> hd [] samples <> [] ->
  (forall i, (i < length (hd [] samples))%nat -> ~ circ_cov (centred (column samples i)) 0 == 0) ->
  nth 0 (ac_spec samples) 0 == 1.
Proof.
  intros Hs Hn Hnc. unfold ac_spec.
  destruct samples as [|row rest]; [congruence|]. cbn [length seq map nth hd] in *.
  destruct row as [|x row]; [congruence|].
  set (n := length (x :: row)) in *.
  rewrite (qsuml_const _ (seq 0 n) 1).
  - rewrite seq_length. field. unfold n. cbn [length]. unfold Qeq. cbn. lia.
  - intros i Hi. apply in_seq in Hi. apply ac_column_lag0. apply Hnc. lia.
Qed.

