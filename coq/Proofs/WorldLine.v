(* World-line consistency (C06) and structural legality (C07) are preserved by the diagonal
   sweep, the free-spin refresh, cutoff padding and replica swaps. *)
From Coq Require Import List QArith ZArith NArith Bool Arith Lia Lqa.
From QmcV Require Import Model.Prog Model.Sse Model.Nav Model.Diagonal Model.Cluster Model.Tempering
     Proofs.ProgLemmas Proofs.HamProofs Proofs.DiagonalProofs Proofs.StepProofs.
Import ListNotations.
Local Open Scope nat_scope.

(* ---------------- basic list facts ---------------- *)
Lemma set_nth_same {A} (l : list A) i d : set_nth l i (nth i l d) = l.
Proof.
  revert i. induction l as [|h t IH]; intros i; cbn; [reflexivity|].
  destruct i; cbn; [reflexivity|]. now rewrite IH.
Qed.

Lemma set_nth_length {A} (l : list A) i x : length (set_nth l i x) = length l.
Proof.
  revert i. induction l as [|h t IH]; intros i; cbn; [reflexivity|]. destruct i; cbn; [reflexivity|]. now rewrite IH.
Qed.

Lemma nth_set_nth {A} (l : list A) i k x d :
  nth k (set_nth l i x) d = if (Nat.eqb i k && Nat.ltb i (length l))%bool then x else nth k l d.
Proof.
  revert i k. induction l as [|h t IH]; intros i k; cbn [set_nth length].
  - rewrite andb_false_r. reflexivity.
  - destruct i, k; cbn [set_nth nth Nat.eqb andb]; try reflexivity.
    rewrite IH. cbn [Nat.ltb Nat.leb]. reflexivity.
Qed.

(* writing back the values just read changes nothing *)
Lemma write_read_same st : forall vs, write_vals st vs (read_vals st vs) = st.
Proof.
  intros vs. revert st. induction vs as [|v vs IH]; intros st; cbn [read_vals map write_vals]; [reflexivity|].
  rewrite set_nth_same. apply IH.
Qed.

Lemma apply_diag_same st o :
  bools_eqb (read_vals st (o_vars o)) (o_in o) = true -> is_diag o = true -> apply_op st o = st.
Proof.
  intros Hr Hd. unfold apply_op. apply bools_eqb_eq in Hr. unfold is_diag in Hd. apply bools_eqb_eq in Hd.
  rewrite <- Hd, <- Hr. apply write_read_same.
Qed.

(* ---------------- what a single slot update can do ---------------- *)
(* structural description of a diagonal-update slot function *)
Definition slot_spec (H : ham) (slot : state -> option op -> prog (option op * state)) : Prop :=
  forall st o p o' st',
    In (p, (o', st')) (denote (slot st o)) ->
    match o with
    | None => st' = st /\ (o' = None \/ exists b, b < h_nbonds H /\ o' = Some (mk_diag H b st))
    | Some op =>
        if is_diag op then st' = st /\ (o' = None \/ o' = Some op)
        else o' = Some op /\ st' = apply_op st op
    end.

Lemma in_dscale_inv {A} q (d : dist A) p a : In (p, a) (dscale q d) -> exists p', In (p', a) d.
Proof. apply in_dscale. Qed.

Lemma met_slot_spec H L n beta : slot_spec H (met_slot H L n beta).
Proof.
  intros st o p o' st' Hin. unfold met_slot in Hin. destruct o as [op|].
  - destruct (is_diag op) eqn:Hd.
    + cbn [denote] in Hin. apply in_app_or in Hin.
      destruct Hin as [Hin|Hin]; apply in_dscale_inv in Hin; destruct Hin as [p' Hin];
        apply support_ret in Hin; inversion Hin; subst; auto.
    + apply support_ret in Hin. inversion Hin; subst. auto.
  - cbn [denote] in Hin. apply in_flat_map in Hin. destruct Hin as [i [Hi Hin]].
    apply in_seq in Hi. apply in_dscale_inv in Hin. destruct Hin as [p' Hin].
    cbn [denote] in Hin. apply in_app_or in Hin.
    destruct Hin as [Hin|Hin]; apply in_dscale_inv in Hin; destruct Hin as [p'' Hin];
      apply support_ret in Hin; inversion Hin; subst; split; auto.
    right. exists (N.to_nat (N.of_nat i)). rewrite !Nnat.Nat2N.id in *. split; [lia|reflexivity].
Qed.

Lemma hb_slot_spec H L n beta : slot_spec H (hb_slot H (bond_weights H) L n beta).
Proof.
  intros st o p o' st' Hin. unfold hb_slot in Hin. destruct o as [op|].
  - destruct (is_diag op) eqn:Hd.
    + cbn [denote] in Hin. apply in_app_or in Hin.
      destruct Hin as [Hin|Hin]; apply in_dscale_inv in Hin; destruct Hin as [p' Hin];
        apply support_ret in Hin; inversion Hin; subst; auto.
    + apply support_ret in Hin. inversion Hin; subst. auto.
  - cbn [denote] in Hin. apply in_app_or in Hin. destruct Hin as [Hin|Hin].
    + apply in_dscale_inv in Hin. destruct Hin as [p' Hin].
      cbn [denote] in Hin. apply in_flat_map in Hin. destruct Hin as [i [Hi Hin]].
      apply in_seq in Hi. rewrite map_length, combine_length, seq_length, Nat.min_id, bond_weights_length in Hi.
      destruct (nth i _ (0%Q, 0%Q)) as [mw w].
      apply in_app_or in Hin.
      destruct Hin as [Hin|Hin]; apply in_dscale_inv in Hin; destruct Hin as [p'' Hin];
        apply support_ret in Hin; inversion Hin; subst; split; auto.
      right. exists i. split; [lia|reflexivity].
    + apply in_dscale_inv in Hin. destruct Hin as [p' Hin].
      apply support_ret in Hin. inversion Hin; subst. auto.
Qed.

(* ---------------- the sweep keeps the world line ---------------- *)
Lemma mk_diag_line H b st :
  bools_eqb (read_vals st (o_vars (mk_diag H b st))) (o_in (mk_diag H b st)) = true
  /\ length (o_in (mk_diag H b st)) = length (o_vars (mk_diag H b st))
  /\ length (o_out (mk_diag H b st)) = length (o_vars (mk_diag H b st))
  /\ apply_op st (mk_diag H b st) = st.
Proof.
  unfold mk_diag. cbn [o_vars o_in o_out]. repeat split.
  - apply bools_eqb_refl.
  - apply read_vals_length.
  - apply read_vals_length.
  - unfold apply_op. cbn [o_vars o_out]. apply write_read_same.
Qed.

Lemma sweep_line H (slotf : nat -> state -> option op -> prog (option op * state)) :
  (forall n, slot_spec H (slotf n)) ->
  forall sl n st fin p sl' n' st',
    check_line st sl = Some fin ->
    In (p, (sl', n', st')) (denote (sweep slotf n st sl)) ->
    check_line st sl' = Some fin /\ st' = fin.
Proof.
  intros Hspec. induction sl as [|o sl IH]; intros n st fin p sl' n' st' Hline Hin; cbn [sweep] in Hin.
  - apply support_ret in Hin. inversion Hin; subst. cbn in Hline. inversion Hline; subst. split; reflexivity.
  - apply support_bind in Hin. destruct Hin as ([o1 st1] & p1 & p2 & Hslot & Hin).
    apply support_bind in Hin. destruct Hin as ([[r1 n1] st2] & p3 & p4 & Hrest & Hret).
    apply support_ret in Hret. inversion Hret; subst. clear Hret.
    apply (Hspec n) in Hslot. destruct o as [op|].
    + cbn [check_line] in Hline.
      destruct (bools_eqb (read_vals st (o_vars op)) (o_in op) && Nat.eqb (length (o_in op)) (length (o_vars op))
                && Nat.eqb (length (o_out op)) (length (o_vars op)))%bool eqn:Hchk; [|discriminate].
      destruct (is_diag op) eqn:Hd.
      * destruct Hslot as [-> Ho1].
        assert (Hsame : apply_op st op = st).
        { apply andb_true_iff in Hchk. destruct Hchk as [Hchk _]. apply andb_true_iff in Hchk.
          destruct Hchk as [Hr _]. now apply apply_diag_same. }
        rewrite Hsame in Hline.
        destruct (IH _ _ _ _ _ _ _ Hline Hrest) as [Hl ->].
        destruct Ho1 as [->| ->]; cbn [check_line].
        -- split; [exact Hl|reflexivity].
        -- rewrite Hchk, Hsame. split; [exact Hl|reflexivity].
      * destruct Hslot as [-> ->].
        destruct (IH _ _ _ _ _ _ _ Hline Hrest) as [Hl ->].
        cbn [check_line]. rewrite Hchk. split; [exact Hl|reflexivity].
    + cbn [check_line] in Hline. destruct Hslot as [-> Ho1].
      destruct (IH _ _ _ _ _ _ _ Hline Hrest) as [Hl ->].
      destruct Ho1 as [->|[b [Hb ->]]]; cbn [check_line]; [split; [exact Hl|reflexivity]|].
      destruct (mk_diag_line H b st) as (E1 & E2 & E3 & E4).
      rewrite E1, E2, E3, !Nat.eqb_refl, E4. cbn [andb]. split; [exact Hl|reflexivity].
Qed.

Lemma check_line_app st a b :
  check_line st (a ++ b) = match check_line st a with Some s => check_line s b | None => None end.
Proof.
  revert st. induction a as [|o a IH]; intros st; cbn [app check_line]; [reflexivity|].
  destruct o as [op|]; [|apply IH].
  destruct (_ && _ && _)%bool; [apply IH|reflexivity].
Qed.

Lemma check_line_nones st k : check_line st (repeat None k) = Some st.
Proof. induction k; cbn; auto. Qed.

(* padding with empty slots (cutoff growth, ladder-maximum cutoff) keeps the world line *)
Lemma wf_pad st sl L : wf st (pad L sl) = wf st sl.
Proof.
  unfold wf, pad. rewrite check_line_app. destruct (check_line st sl) as [s|]; [|reflexivity].
  now rewrite check_line_nones.
Qed.

(* a whole diagonal update (either variant) maps consistent periodic configurations to
   consistent periodic configurations and hands back the p = 0 state *)
Lemma diagonal_update_wf H (slotf : nat -> nat -> state -> option op -> prog (option op * state)) L st sl :
  (forall L n, slot_spec H (slotf L n)) ->
  length sl <= L ->
  wf st sl = true ->
  forall p sl' n' st', In (p, (sl', n', st')) (denote (diagonal_update slotf L st sl)) ->
    wf st sl' = true /\ st' = st.
Proof.
  intros Hspec Hlen Hwf p sl' n' st' Hin. unfold diagonal_update in Hin.
  apply support_bind in Hin. destruct Hin as ([[h1 n1] st1] & p1 & p2 & Hin & Hret).
  apply support_ret in Hret. inversion Hret; subst. clear Hret.
  assert (Hpad : length (pad L sl) = L).
  { unfold pad. rewrite app_length, repeat_length. lia. }
  rewrite firstn_all2 in Hin by lia. rewrite skipn_all2 by lia. rewrite app_nil_r.
  rewrite <- (wf_pad st sl L) in Hwf. unfold wf in Hwf.
  destruct (check_line st (pad L sl)) as [fin|] eqn:Hl; [|discriminate].
  apply bools_eqb_eq in Hwf. subst fin.
  destruct (sweep_line H (slotf L) (Hspec L) _ _ _ _ _ _ _ _ Hl Hin) as [Hl' ->].
  split; [|reflexivity]. unfold wf. rewrite Hl'. apply bools_eqb_refl.
Qed.

(* ---------------- structural legality of what the sweep stores (C07) ---------------- *)
Definition op_struct_legal (H : ham) (o : op) : bool :=
  Nat.ltb (o_bond o) (h_nbonds H)
  && nats_eqb (o_vars o) (h_vars H (o_bond o))
  && Bool.eqb (o_const o) (h_const H (o_bond o))
  && Nat.eqb (length (o_in o)) (length (o_vars o))
  && Nat.eqb (length (o_out o)) (length (o_vars o)).

Definition all_struct_legal (H : ham) (sl : slots) : bool :=
  forallb (fun s => match s with Some o => op_struct_legal H o | None => true end) sl.

Lemma mk_diag_struct_legal H b st : b < h_nbonds H -> op_struct_legal H (mk_diag H b st) = true.
Proof.
  intros Hb. unfold op_struct_legal, mk_diag. cbn [o_bond o_vars o_const o_in o_out].
  rewrite nats_eqb_refl, eqb_reflx, read_vals_length, Nat.eqb_refl.
  replace (Nat.ltb b (h_nbonds H)) with true by (symmetry; apply Nat.ltb_lt; exact Hb). reflexivity.
Qed.

Lemma sweep_struct_legal H (slotf : nat -> state -> option op -> prog (option op * state)) :
  (forall n, slot_spec H (slotf n)) ->
  forall sl n st p sl' n' st',
    all_struct_legal H sl = true ->
    In (p, (sl', n', st')) (denote (sweep slotf n st sl)) ->
    all_struct_legal H sl' = true.
Proof.
  intros Hspec. induction sl as [|o sl IH]; intros n st p sl' n' st' Hleg Hin; cbn [sweep] in Hin.
  - apply support_ret in Hin. inversion Hin; subst. reflexivity.
  - apply support_bind in Hin. destruct Hin as ([o1 st1] & p1 & p2 & Hslot & Hin).
    apply support_bind in Hin. destruct Hin as ([[r1 n1] st2] & p3 & p4 & Hrest & Hret).
    apply support_ret in Hret. inversion Hret; subst. clear Hret.
    cbn [all_struct_legal forallb] in Hleg. apply andb_true_iff in Hleg. destruct Hleg as [Ho Hr].
    cbn [all_struct_legal forallb]. apply andb_true_iff. split; [|eapply IH; eauto].
    apply (Hspec n) in Hslot. destruct o as [op|].
    + destruct (is_diag op).
      * destruct Hslot as [_ [->| ->]]; [reflexivity|exact Ho].
      * destruct Hslot as [-> _]. exact Ho.
    + destruct Hslot as [_ [->|[b [Hb ->]]]]; [reflexivity|]. now apply mk_diag_struct_legal.
Qed.

(* zero-weight operators are inserted with probability 0, and a stored one is removed with probability 1 *)
Lemma met_zero_weight_never_inserted H L n beta st b :
  (b < h_nbonds H)%nat -> (n < L)%nat -> (diag_weight H b st == 0)%Q ->
  (mass (is_slot (Some (mk_diag H b st))) (denote (met_slot H L n beta st None)) == 0)%Q.
Proof.
  intros Hb Hn Hw. rewrite met_insert_mass by exact Hb. unfold p_ins_met.
  assert (Hd : (0 < Qnat (L - n))%Q) by (apply Qnat_pos; lia).
  assert (E : (ratio_prob (beta * Qnat (h_nbonds H) * diag_weight H b st) (Qnat (L - n)) == 0)%Q).
  { unfold ratio_prob.
    assert (Hz : (beta * Qnat (h_nbonds H) * diag_weight H b st == 0)%Q) by (rewrite Hw; ring).
    destruct (Qle_bool (beta * Qnat (h_nbonds H) * diag_weight H b st) (Qnat (L - n))) eqn:E1.
    - destruct (Qle_bool (Qnat (L - n)) 0) eqn:E2.
      + apply Qle_bool_iff in E2. lra.
      + unfold qclip.
        replace (Qle_bool (beta * Qnat (h_nbonds H) * diag_weight H b st / Qnat (L - n)) 0) with true; [reflexivity|].
        symmetry. apply Qle_bool_iff. rewrite Hz. unfold Qdiv. rewrite Qmult_0_l. lra.
    - exfalso. assert (~ (beta * Qnat (h_nbonds H) * diag_weight H b st <= Qnat (L - n))%Q)
        by (intros HH; apply Qle_bool_iff in HH; congruence). lra. }
  rewrite E. ring.
Qed.

Lemma hb_zero_weight_never_inserted H L n beta st b :
  (b < h_nbonds H)%nat -> (0 < max_weight H b)%Q -> (diag_weight H b st == 0)%Q ->
  (mass (is_slot (Some (mk_diag H b st))) (denote (hb_slot H (bond_weights H) L n beta st None)) == 0)%Q.
Proof.
  intros Hb Hmw Hw. rewrite hb_insert_mass by assumption. unfold p_ins_hb. cbv zeta.
  assert (E : (qclip (diag_weight H b st / max_weight H b) == 0)%Q).
  { unfold qclip.
    replace (Qle_bool (diag_weight H b st / max_weight H b) 0) with true; [reflexivity|].
    symmetry. apply Qle_bool_iff. rewrite Hw. unfold Qdiv. rewrite Qmult_0_l. lra. }
  rewrite E. ring.
Qed.

(* ---------------- free-spin refresh ---------------- *)
Lemma read_vals_set_other st vs v x : ~ In v vs -> read_vals (set_nth st v x) vs = read_vals st vs.
Proof.
  intros Hn. unfold read_vals. apply map_ext_in. intros a Ha.
  rewrite nth_set_nth. destruct (Nat.eqb_spec v a) as [->|]; [contradiction|reflexivity].
Qed.

Lemma set_nth_comm {A} (l : list A) i j x y : i <> j -> set_nth (set_nth l i x) j y = set_nth (set_nth l j y) i x.
Proof.
  revert i j. induction l as [|h t IH]; intros i j Hne; cbn; [reflexivity|].
  destruct i, j; cbn; try reflexivity; try lia. f_equal. apply IH. lia.
Qed.

Lemma write_vals_set_other st vs vals v x :
  ~ In v vs -> write_vals (set_nth st v x) vs vals = set_nth (write_vals st vs vals) v x.
Proof.
  revert st vals. induction vs as [|w vs IH]; intros st vals Hn; cbn [write_vals]; [reflexivity|].
  destruct vals as [|b vals]; [reflexivity|].
  rewrite set_nth_comm by (intros ->; apply Hn; now left). apply IH. intros Hin. apply Hn. now right.
Qed.

Definition untouched (sl : slots) (v : nat) : Prop :=
  forall o, In (Some o) sl -> ~ In v (o_vars o).

(* setting a spin that no operator acts on commutes with the whole consistency walk *)
Lemma check_line_set_free sl : forall st v x,
  untouched sl v ->
  check_line (set_nth st v x) sl = option_map (fun s => set_nth s v x) (check_line st sl).
Proof.
  induction sl as [|o sl IH]; intros st v x Hu; cbn [check_line]; [reflexivity|].
  assert (Hu' : untouched sl v) by (intros o' Ho'; apply Hu; now right).
  destruct o as [op|]; [|now apply IH].
  assert (Hv : ~ In v (o_vars op)) by (apply Hu; now left).
  rewrite read_vals_set_other by exact Hv.
  destruct (_ && _ && _)%bool; [|reflexivity].
  unfold apply_op. rewrite write_vals_set_other by exact Hv. now apply IH.
Qed.

Lemma wf_set_free st sl v x : untouched sl v -> wf st sl = true -> wf (set_nth st v x) sl = true.
Proof.
  intros Hu Hwf. unfold wf in *. rewrite check_line_set_free by exact Hu.
  destruct (check_line st sl) as [fin|]; [|discriminate]. cbn [option_map].
  apply bools_eqb_eq in Hwf. subst. apply bools_eqb_refl.
Qed.

Lemma index_of_none_notin v vs : index_of v vs = None -> ~ In v vs.
Proof.
  induction vs as [|x vs IH]; cbn [index_of]; intros H; [tauto|].
  destruct (Nat.eqb_spec x v) as [->|Hne]; [discriminate|].
  destruct (index_of v vs); [discriminate|]. intros [->|Hin]; [congruence|]. now apply IH.
Qed.

Lemma ops_on_var_nil_untouched sl v : forall p, g_ops_on_var_from o_vars p sl v = [] -> untouched sl v.
Proof.
  induction sl as [|o sl IH]; intros p H o' Hin; [contradiction|].
  cbn [g_ops_on_var_from] in H. destruct o as [op|].
  - destruct (index_of v (o_vars op)) eqn:E; [discriminate|].
    destruct Hin as [Hin|Hin]; [inversion Hin; subst; now apply index_of_none_notin|].
    eapply IH; eauto.
  - destruct Hin as [Hin|Hin]; [discriminate|]. eapply IH; eauto.
Qed.

Lemma var_no_ops_untouched sl v : var_has_ops sl v = false -> untouched sl v.
Proof.
  unfold var_has_ops, g_var_has_ops, g_ops_on_var. intros H.
  destruct (g_ops_on_var_from o_vars 0 sl v) eqn:E; [|discriminate].
  eapply ops_on_var_nil_untouched; eauto.
Qed.

Lemma refresh_from_wf sl : forall k v st p st',
  wf st sl = true -> In (p, st') (denote (refresh_from v k sl st)) -> wf st' sl = true.
Proof.
  induction k as [|k IH]; intros v st p st' Hwf Hin; cbn [refresh_from] in Hin.
  - apply support_ret in Hin. now subst.
  - destruct (var_has_ops sl v) eqn:E.
    + eapply IH; eauto.
    + cbn [denote] in Hin. apply in_app_or in Hin.
      destruct Hin as [Hin|Hin]; apply in_dscale_inv in Hin; destruct Hin as [p' Hin];
        (eapply IH; [|exact Hin]); apply wf_set_free; auto using var_no_ops_untouched.
Qed.

Lemma refresh_wf sl st p st' : wf st sl = true -> In (p, st') (denote (refresh sl st)) -> wf st' sl = true.
Proof. unfold refresh. apply refresh_from_wf. Qed.

(* ---------------- swaps and the imaginary-time fold ---------------- *)
Lemma swap_keeps_wf a b :
  wf (rp_state a) (rp_slots a) = true -> wf (rp_state b) (rp_slots b) = true ->
  let '(a', b') := swap_replicas a b in
  wf (rp_state a') (rp_slots a') = true /\ wf (rp_state b') (rp_slots b') = true.
Proof. cbn. auto. Qed.

Lemma itime_states_spec sl : forall st,
  itime_states st sl = map (fun p => propagate st (firstn p sl)) (seq 0 (length sl)).
Proof.
  induction sl as [|s sl IH]; intros st; cbn [itime_states length seq map]; [reflexivity|].
  f_equal. rewrite IH. rewrite <- seq_shift, map_map. apply map_ext. intros p. reflexivity.
Qed.

Lemma itime_states_length st sl : length (itime_states st sl) = length sl.
Proof. rewrite itime_states_spec, map_length, seq_length. reflexivity. Qed.
