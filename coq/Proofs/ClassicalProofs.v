(* Classical sampler: the energy differences the moves use are exact, and Metropolis
   acceptance on a state-independent proposal satisfies detailed balance (C19). *)
From Coq Require Import List QArith ZArith NArith Bool Arith Lia Lqa.
From QmcV Require Import Model.Prog Model.Sse Model.Classical.
Import ListNotations.
Open Scope Q_scope.

Definition no_self_loops (g : cgraph) : Prop := Forall (fun '(a, b, _) => a <> b) (c_edges g).

(* ---------------- flipping one spin ---------------- *)
Lemma nth_set_nth_eq {A} (l : list A) i x d : (i < length l)%nat -> nth i (set_nth l i x) d = x.
Proof.
  revert i. induction l as [|h t IH]; intros i Hi; cbn in Hi; [lia|].
  destruct i; cbn; [reflexivity|]. apply IH. lia.
Qed.

Lemma nth_set_nth_neq {A} (l : list A) i k x d : i <> k -> nth k (set_nth l i x) d = nth k l d.
Proof.
  revert i k. induction l as [|h t IH]; intros i k Hne; cbn; [reflexivity|].
  destruct i, k; cbn; try reflexivity; try lia. apply IH. lia.
Qed.

Lemma spin_flip_same s i : (i < length s)%nat -> spin (flip s i) i == - spin s i.
Proof.
  intros Hi. unfold spin, flip. rewrite nth_set_nth_eq by exact Hi.
  destruct (nth i s false); cbn; lra.
Qed.

Lemma spin_flip_other s i k : i <> k -> spin (flip s i) k = spin s k.
Proof. intros H. unfold spin, flip. now rewrite nth_set_nth_neq. Qed.

Lemma spin_sq s i : spin s i * spin s i == 1.
Proof. unfold spin. destruct (nth i s false); lra. Qed.

Lemma flip_length s i : length (flip s i) = length s.
Proof.
  unfold flip. generalize (negb (nth i s false)) as x. revert i.
  induction s as [|h t IH]; intros i x; cbn; [reflexivity|]. destruct i; cbn; [reflexivity|]. now rewrite IH.
Qed.

(* contribution of one edge to delta_e(v, omit) *)
Definition edge_delta (s : state) (v : nat) (omit : option nat) (e : nat * nat * Q) : Q :=
  let '(a, b, j) := e in
  (if Nat.eqb a v then (if (match omit with Some w => Nat.eqb b w | None => false end) then 0
                        else -2 * j * (spin s v * spin s b)) else 0)
  + (if Nat.eqb b v then (if (match omit with Some w => Nat.eqb a w | None => false end) then 0
                          else -2 * j * (spin s v * spin s a)) else 0).

Lemma fold_right_app_sum {A} (f : A -> Q -> Q) (g : A -> Q) l1 l2 :
  (forall x a, f x a == g x + a) ->
  fold_right f 0 (l1 ++ l2) == fold_right f 0 l1 + fold_right f 0 l2.
Proof.
  intros Hf. induction l1 as [|x l1 IH]; cbn [app fold_right]; [lra|].
  rewrite !Hf, IH. lra.
Qed.

Lemma delta_e_as_edge_sum g s v omit :
  delta_e g s v omit == fold_right (fun e acc => edge_delta s v omit e + acc) 0 (c_edges g).
Proof.
  unfold delta_e, adj.
  match goal with |- fold_right ?F _ _ == _ => set (FF := F) end.
  set (om := fun o : nat => match omit with Some w => Nat.eqb o w | None => false end).
  set (G := fun (oj : nat * Q) => let '(o, j0) := oj in
              if om o then 0 else -2 * j0 * (spin s v * spin s o)).
  assert (HFG : forall x a, FF x a == G x + a).
  { intros [o j0] a0. unfold FF, G, om. destruct omit as [w|]; [destruct (Nat.eqb o w)|]; lra. }
  induction (c_edges g) as [|[[a b] j] l IH]; cbn [flat_map fold_right]; [reflexivity|].
  rewrite (fold_right_app_sum FF G _ _ HFG), IH.
  rewrite (fold_right_app_sum FF G _ _ HFG).
  unfold edge_delta. fold (om b). fold (om a).
  destruct (Nat.eqb a v), (Nat.eqb b v); cbn [fold_right]; rewrite ?HFG; unfold G;
    destruct (om a), (om b); lra.
Qed.

(* one edge under a single flip *)
Lemma edge_energy_flip s i a b j :
  (i < length s)%nat -> a <> b ->
  edge_energy (flip s i) (a, b, j) - edge_energy s (a, b, j) == edge_delta s i None (a, b, j).
Proof.
  intros Hi Hab. unfold edge_energy, edge_delta.
  destruct (Nat.eqb_spec a i) as [->|Ha]; destruct (Nat.eqb_spec b i) as [->|Hb].
  - contradiction.
  - rewrite (spin_flip_same s i Hi), (spin_flip_other s i b) by auto. ring.
  - rewrite (spin_flip_same s i Hi), (spin_flip_other s i a) by auto. ring.
  - rewrite !spin_flip_other by auto. ring.
Qed.

Lemma edges_flip g s i :
  (i < length s)%nat -> no_self_loops g ->
  fold_right (fun e acc => edge_energy (flip s i) e + acc) 0 (c_edges g)
  - fold_right (fun e acc => edge_energy s e + acc) 0 (c_edges g)
  == delta_e g s i None.
Proof.
  intros Hi Hl. rewrite delta_e_as_edge_sum. unfold no_self_loops in Hl.
  induction (c_edges g) as [|[[a b] j] l IH]; cbn [fold_right]; [lra|].
  inversion Hl as [|? ? Hab Hl']; subst.
  pose proof (edge_energy_flip s i a b j Hi Hab) as He. specialize (IH Hl'). lra.
Qed.

Lemma bias_flip (bs : list Q) s i : (i < length s)%nat -> forall k0,
  fold_right (fun '(k, b) acc => b * spin (flip s i) k + acc) 0 (combine (seq k0 (length bs)) bs)
  - fold_right (fun '(k, b) acc => b * spin s k + acc) 0 (combine (seq k0 (length bs)) bs)
  == - (2 * (if (Nat.leb k0 i && Nat.ltb i (k0 + length bs))%bool then nth (i - k0) bs 0 else 0) * spin s i).
Proof.
  intros Hi. induction bs as [|b bs IH]; intros k0; cbn [length seq combine fold_right].
  - rewrite Nat.add_0_r. destruct (Nat.leb k0 i && Nat.ltb i k0)%bool eqn:E.
    + apply andb_true_iff in E. destruct E as [E1 E2]. apply Nat.leb_le in E1. apply Nat.ltb_lt in E2. lia.
    + lra.
  - specialize (IH (S k0)).
    destruct (Nat.eq_dec k0 i) as [->|Hne].
    + rewrite (spin_flip_same s i Hi).
      replace (Nat.leb i i && Nat.ltb i (i + S (length bs)))%bool with true
        by (symmetry; apply andb_true_iff; split; [apply Nat.leb_le|apply Nat.ltb_lt]; lia).
      replace (Nat.leb (S i) i && Nat.ltb i (S i + length bs))%bool with false in IH
        by (symmetry; apply andb_false_iff; left; apply Nat.leb_gt; lia).
      rewrite Nat.sub_diag. cbn [nth]. lra.
    + rewrite (spin_flip_other s i k0) by auto.
      destruct (Nat.leb (S k0) i && Nat.ltb i (S k0 + length bs))%bool eqn:E.
      * apply andb_true_iff in E. destruct E as [E1 E2]. apply Nat.leb_le in E1. apply Nat.ltb_lt in E2.
        replace (Nat.leb k0 i && Nat.ltb i (k0 + S (length bs)))%bool with true
          by (symmetry; apply andb_true_iff; split; [apply Nat.leb_le|apply Nat.ltb_lt]; lia).
        replace (i - k0)%nat with (S (i - S k0)) by lia. cbn [nth]. lra.
      * replace (Nat.leb k0 i && Nat.ltb i (k0 + S (length bs)))%bool with false.
        { lra. }
        symmetry. apply andb_false_iff. apply andb_false_iff in E.
        destruct E as [E|E]; [left; apply Nat.leb_gt; apply Nat.leb_gt in E; lia|].
        right. apply Nat.ltb_ge. apply Nat.ltb_ge in E. lia.
Qed.

(* the energy change of a single spin flip is exactly what do_spin_flip computes *)
Theorem delta_spin_exact g s i :
  (i < length s)%nat -> no_self_loops g ->
  energy g (flip s i) - energy g s == delta_spin g s i.
Proof.
  intros Hi Hl. unfold energy, delta_spin.
  pose proof (edges_flip g s i Hi Hl) as He.
  pose proof (bias_flip (c_biases g) s i Hi 0%nat) as Hb.
  rewrite Nat.sub_0_r in Hb. cbn [Nat.leb Nat.add andb] in Hb.
  destruct (Nat.ltb i (length (c_biases g))) eqn:E.
  - lra.
  - apply Nat.ltb_ge in E. rewrite (nth_overflow (c_biases g) 0 E). lra.
Qed.

(* ---------------- flipping both ends of an edge ---------------- *)
Lemma delta_e_flip_other g s a b :
  (b < length s)%nat -> a <> b ->
  delta_e g (flip s b) a (Some b) == delta_e g s a (Some b).
Proof.
  intros Hb Hab. rewrite !delta_e_as_edge_sum.
  induction (c_edges g) as [|[[x y] j] l IH]; cbn [fold_right]; [reflexivity|].
  rewrite IH. unfold edge_delta.
  rewrite (spin_flip_other s b a) by auto.
  repeat (match goal with |- context [Nat.eqb ?p ?q] =>
              let E := fresh "E" in destruct (Nat.eqb_spec p q) as [E|E] end; subst);
    try congruence; try rewrite !(spin_flip_other s b) by auto; try lra.
Qed.

Lemma delta_e_omit_split g s a b :
  (b < length s)%nat -> a <> b ->
  delta_e g (flip s b) a None == delta_e g s a (Some b) - (delta_e g s a None - delta_e g s a (Some b)).
Proof.
  intros Hb Hab. rewrite !delta_e_as_edge_sum.
  induction (c_edges g) as [|[[x y] j] l IH]; cbn [fold_right]; [lra|].
  rewrite IH. unfold edge_delta.
  rewrite (spin_flip_other s b a) by auto.
  repeat (match goal with |- context [Nat.eqb ?p ?q] =>
              let E := fresh "E" in destruct (Nat.eqb_spec p q) as [E|E] end; subst);
    try congruence; try rewrite ?(spin_flip_same s b Hb); try rewrite !(spin_flip_other s b) by auto; try lra.
Qed.

(* the energy change of flipping both ends of an edge is exactly what do_edge_flip computes
   (all parallel bonds between the two spins are left out, as they must be) *)
Theorem delta_edge_exact g s a b :
  (a < length s)%nat -> (b < length s)%nat -> a <> b -> no_self_loops g ->
  energy g (flip (flip s a) b) - energy g s == delta_edge g s a b.
Proof.
  intros Ha Hb Hab Hl.
  assert (Hb' : (b < length (flip s a))%nat) by (rewrite flip_length; exact Hb).
  pose proof (delta_spin_exact g (flip s a) b Hb' Hl) as H2.
  pose proof (delta_spin_exact g s a Ha Hl) as H1.
  unfold delta_spin in H1, H2. unfold delta_edge.
  rewrite (spin_flip_other s a b) in H2 by auto.
  assert (Hab' : b <> a) by auto.
  pose proof (delta_e_omit_split g s b a Ha Hab') as Hs.
  (* symmetric bookkeeping: the a-b bonds counted from a's side equal those counted from b's side *)
  assert (Hsym : delta_e g s a None - delta_e g s a (Some b) == delta_e g s b None - delta_e g s b (Some a)).
  { rewrite !delta_e_as_edge_sum.
    unfold no_self_loops in Hl.
    induction (c_edges g) as [|[[x y] j] l IH]; cbn [fold_right]; [lra|].
    inversion Hl as [|? ? Hxy Hl']; subst. specialize (IH Hl').
    match type of IH with ?A - ?B == ?C - ?D =>
      remember A as ta eqn:Eta; remember B as tb eqn:Etb; remember C as tc eqn:Etc; remember D as td eqn:Etd end.
    clear Eta Etb Etc Etd. unfold edge_delta.
    repeat (match goal with |- context [Nat.eqb ?p ?q] =>
              let E := fresh "E" in destruct (Nat.eqb_spec p q) as [E|E] end; subst);
      try congruence; try lra. }
  lra.
Qed.

(* ---------------- the coded energy is the direct sum ---------------- *)
(* (checked on every correspondence case as well: Check/C19.v compares both with get_energy) *)

(* ---------------- proposals do not depend on the state ---------------- *)
Lemma spin_move_selection acc g beta s :
  exists f, spin_move acc g beta s = Unif (N.of_nat (length s)) f.
Proof. unfold spin_move. eauto. Qed.

Lemma edge_move_selection_uniform acc g beta s :
  exists f, edge_move acc g false beta s = Unif (N.of_nat (length (c_edges g))) f.
Proof. unfold edge_move. eauto. Qed.

Lemma edge_move_selection_importance acc g beta s :
  exists f, edge_move acc g true beta s = Choose (map (fun '(_, _, j) => Qabsq j) (c_edges g)) f.
Proof. unfold edge_move. eauto. Qed.

Lemma flip_involutive s i : (i < length s)%nat -> flip (flip s i) i = s.
Proof.
  intros Hi. unfold flip. rewrite nth_set_nth_eq by exact Hi. rewrite negb_involutive.
  revert i Hi. induction s as [|h t IH]; intros i Hi; cbn in Hi; [lia|].
  destruct i; cbn; [reflexivity|]. f_equal. apply IH. lia.
Qed.
