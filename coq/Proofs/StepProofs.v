(* Support-level facts about whole steps: cutoff rule, counts (C12). *)
From Coq Require Import List QArith ZArith NArith Bool Arith Lia.
From QmcV Require Import Model.Prog Model.Sse Model.Ham Model.Diagonal Model.Nav Model.Cluster Model.Loop
     Model.Steps Proofs.ProgLemmas Proofs.DiagonalProofs.
Import ListNotations.
Local Open Scope nat_scope.

Lemma next_cutoff_mono c n : c <= next_cutoff c n.
Proof. unfold next_cutoff. lia. Qed.

Lemma next_cutoff_headroom c n : n < next_cutoff c n /\ n + n / 2 < next_cutoff c n.
Proof. unfold next_cutoff. split; lia. Qed.

Lemma next_cutoff_ge_arg c n c' : c <= c' -> next_cutoff c n <= next_cutoff c' n.
Proof. unfold next_cutoff. lia. Qed.

Lemma count_le_length (sl : slots) : count_ops sl <= length sl.
Proof. unfold count_ops. apply filter_len_le. Qed.

(* cutoffs along a run: c_{i+1} = next_cutoff c_i n_i *)
Fixpoint cutoffs (c : nat) (ns : list nat) : list nat :=
  match ns with
  | [] => [c]
  | n :: r => c :: cutoffs (next_cutoff c n) r
  end.

Lemma cutoffs_length c ns : length (cutoffs c ns) = S (length ns).
Proof. revert c. induction ns as [|n r IH]; intros c; cbn; [reflexivity|]. now rewrite IH. Qed.

Lemma cutoffs_nth0 c ns : nth 0 (cutoffs c ns) 0 = c.
Proof. destruct ns; reflexivity. Qed.

(* along any run: the cutoff never shrinks, and after step i it exceeds the count of step i
   by at least one slot and by half the count *)
Lemma run_cutoffs ns : forall c i, i < length ns ->
  nth i (cutoffs c ns) 0 <= nth (S i) (cutoffs c ns) 0
  /\ nth i ns 0 < nth (S i) (cutoffs c ns) 0
  /\ nth i ns 0 + nth i ns 0 / 2 < nth (S i) (cutoffs c ns) 0.
Proof.
  induction ns as [|n r IH]; intros c i Hi; cbn [length] in Hi; [lia|].
  destruct i as [|i].
  - cbn [cutoffs nth]. rewrite cutoffs_nth0.
    pose proof (next_cutoff_mono c n). pose proof (next_cutoff_headroom c n). lia.
  - cbn [cutoffs nth]. apply IH. lia.
Qed.

Lemma run_cutoffs_ge_initial ns : forall c i, i <= length ns -> c <= nth i (cutoffs c ns) 0.
Proof.
  induction ns as [|n r IH]; intros c i Hi; cbn [length] in Hi.
  - assert (i = 0) by lia. subst. cbn. lia.
  - destruct i as [|i]; cbn [cutoffs nth]; [lia|].
    pose proof (next_cutoff_mono c n). specialize (IH (next_cutoff c n) i). lia.
Qed.

(* ---------------- support helpers ---------------- *)
Lemma support_ret {A} (a x : A) p : In (p, x) (denote (Ret a)) -> x = a.
Proof. cbn. intros [E|[]]. now inversion E. Qed.

(* the diagonal update leaves a string of length max(L, len) holding the reported number of ops *)
Lemma diagonal_update_support slot L st sl p sl' n' st' :
  In (p, (sl', n', st')) (denote (diagonal_update slot L st sl)) ->
  n' = count_ops sl' /\ length sl' = Nat.max L (length sl).
Proof.
  unfold diagonal_update. intros Hin.
  apply support_bind in Hin. destruct Hin as ([[h1 n1] st1] & p1 & p2 & Hin & Hret).
  apply support_ret in Hret. inversion Hret; subst.
  set (sl0 := pad L sl) in *.
  assert (Hsplit : sl0 = firstn L sl0 ++ skipn L sl0) by (symmetry; apply firstn_skipn).
  apply (sweep_count _ _ (count_ops (skipn L sl0))) in Hin.
  - destruct Hin as [Hc Hl]. split.
    + unfold count_ops in *. rewrite filter_app, app_length. lia.
    + rewrite app_length, Hl, <- app_length, <- Hsplit. unfold sl0, pad.
      rewrite app_length, repeat_length. lia.
  - rewrite Hsplit at 1. unfold count_ops. rewrite filter_app, app_length. lia.
Qed.

Lemma diagonal_update_headroom slot L st sl p sl' n' st' :
  length sl <= L ->
  In (p, (sl', n', st')) (denote (diagonal_update slot L st sl)) -> n' <= L.
Proof.
  intros Hl Hin. apply diagonal_update_support in Hin. destruct Hin as [-> Hlen].
  pose proof (count_le_length sl'). lia.
Qed.

(* Ising sampler: the cutoff reported after a time step obeys the growth rule on the final count *)
Lemma ising_timestep_cutoff g hb beta c st sl p sl' st' c' :
  In (p, Some (sl', st', c')) (denote (ising_timestep g hb beta c st sl)) ->
  c' = next_cutoff c (count_ops sl').
Proof.
  unfold ising_timestep. intros Hin.
  apply support_bind in Hin. destruct Hin as ([[sl1 n1] st1] & p1 & p2 & _ & Hin).
  apply support_bind in Hin. destruct Hin as (r & p3 & p4 & _ & Hin).
  destruct r as [[[sl2 st2] k]|].
  - apply support_bind in Hin. destruct Hin as (st3 & p5 & p6 & _ & Hret).
    apply support_ret in Hret. now inversion Hret.
  - apply support_ret in Hin. discriminate.
Qed.

Lemma ising_single_diagonal_cutoff g hb beta c st sl p sl' st' c' :
  In (p, Some (sl', st', c')) (denote (ising_single_diagonal g hb beta c st sl)) ->
  c' = next_cutoff c (count_ops sl').
Proof.
  unfold ising_single_diagonal, ising_diag. intros Hin.
  apply support_bind in Hin. destruct Hin as ([[sl1 n1] st1] & p1 & p2 & Hd & Hret).
  apply support_ret in Hret. inversion Hret; subst.
  destruct hb; apply diagonal_update_support in Hd; destruct Hd as [-> _]; reflexivity.
Qed.

(* generic sampler: the cutoff is grown right after the diagonal update, from the count it left *)
Lemma qmc_timestep_cutoff fuel bonds hb loops beta c st sl p sl' st' c' :
  In (p, Some (sl', st', c')) (denote (qmc_timestep fuel bonds hb loops beta c st sl)) ->
  exists n1, c' = next_cutoff c n1 /\ n1 <= Nat.max c (length sl).
Proof.
  unfold qmc_timestep, qmc_diag. intros Hin.
  apply support_bind in Hin. destruct Hin as ([[sl1 n1] st1] & p1 & p2 & Hd & Hin).
  exists n1. split.
  - apply support_bind in Hin. destruct Hin as (r & p3 & p4 & _ & Hin).
    destruct r as [[sl2 st2]|]; [|apply support_ret in Hin; discriminate].
    apply support_bind in Hin. destruct Hin as (r2 & p5 & p6 & _ & Hin).
    destruct r2 as [[[sl3 st3] k]|]; [|apply support_ret in Hin; discriminate].
    apply support_bind in Hin. destruct Hin as (st4 & p7 & p8 & _ & Hret).
    apply support_ret in Hret. now inversion Hret.
  - destruct hb; apply diagonal_update_support in Hd; destruct Hd as [-> Hl];
      pose proof (count_le_length sl1); lia.
Qed.

(* ---- closed form of a run of the growth rule ---- *)
Definition need (n : nat) : nat := n + n / 2 + 1.

Lemma cutoffs_last ns : forall c, nth (length ns) (cutoffs c ns) 0 = fold_left next_cutoff ns c.
Proof. induction ns as [|n ns IH]; intros c; cbn [cutoffs length nth fold_left]; [reflexivity|apply IH]. Qed.

(* after any run the cutoff is exactly max(initial, need(n_i) over the counts seen): it depends only
   on the largest demand so far — not on the order of the counts — and is the least value the rule allows *)
Theorem cutoffs_closed_form ns : forall c,
  nth (length ns) (cutoffs c ns) 0 = Nat.max c (list_max (map need ns)).
Proof.
  intros c. rewrite cutoffs_last. revert c.
  induction ns as [|n ns IH]; intros c; cbn [fold_left map list_max fold_right]; [lia|].
  rewrite IH. unfold next_cutoff, need.
  change (fold_right Nat.max 0 (map (fun n0 => n0 + n0 / 2 + 1) ns)) with (list_max (map (fun n0 => n0 + n0 / 2 + 1) ns)).
  lia.
Qed.

(* a run whose counts never demand more than the current cutoff leaves it unchanged at every step *)
Theorem cutoffs_stable ns : forall c, Forall (fun n => need n <= c) ns ->
  forall i, i <= length ns -> nth i (cutoffs c ns) 0 = c.
Proof.
  induction ns as [|n ns IH]; intros c H i Hi; cbn [length] in Hi.
  - assert (i = 0) by lia. subst. reflexivity.
  - inversion H as [|? ? Hn Hr]; subst. destruct i as [|i]; [reflexivity|]. cbn [cutoffs nth].
    assert (E : next_cutoff c n = c) by (unfold next_cutoff, need in *; lia).
    rewrite E. apply IH; [exact Hr|lia].
Qed.
