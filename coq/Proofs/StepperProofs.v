(* Cadence and averaging of the measurement helpers and tempering drivers (C17). *)
From Coq Require Import List QArith ZArith NArith Bool Arith Lia Lqa.
From QmcV Require Import Model.Stepper.
Import ListNotations.
Local Open Scope nat_scope.

(* ---------------- timesteps_measure ---------------- *)
Definition sum_nat (l : list nat) : nat := fold_right Nat.add 0 l.

Definition times_from (f t rem : nat) : list nat :=
  filter (fun k => Nat.eqb (k mod f) 0) (seq (S t) rem).

Lemma iter_S {St} (step : St -> St) k s : iter step (S k) s = step (iter step k s).
Proof. reflexivity. Qed.

Lemma measure_loop_spec {St A} (step : St -> St) (nof : St -> nat) (fold : A -> St -> A) f s0 :
  forall rem t acc cnt tot,
    measure_loop step nof fold f rem t (iter step t s0) acc cnt tot
    = (iter step (t + rem) s0,
       fold_left fold (map (fun k => iter step k s0) (times_from f t rem)) acc,
       cnt + length (times_from f t rem),
       tot + sum_nat (map (fun k => nof (iter step k s0)) (times_from f t rem))).
Proof.
  induction rem as [|r IH]; intros t acc cnt tot.
  - unfold times_from. cbn [seq filter map fold_left length sum_nat fold_right]. rewrite !Nat.add_0_r. reflexivity.
  - cbn [measure_loop]. unfold times_from. cbn [seq filter].
    replace (t + 1) with (S t) by lia.
    rewrite <- (iter_S step t s0).
    destruct (Nat.eqb (S t mod f) 0) eqn:E.
    + rewrite IH. unfold times_from. cbn [map fold_left length].
      change (sum_nat (?x :: ?l)) with (x + sum_nat l).
      replace (S t + r) with (t + S r) by lia.
      rewrite Nat.add_succ_comm, <- Nat.add_assoc. reflexivity.
    + rewrite IH. unfold times_from.
      replace (S t + r) with (t + S r) by lia. reflexivity.
Qed.

Lemma measure_spec {St A} (step : St -> St) (nof : St -> nat) (fold : A -> St -> A) f T s0 acc :
  measure step nof fold f T s0 acc
  = (iter step T s0,
     fold_left fold (map (fun k => iter step k s0) (sample_times f T)) acc,
     length (sample_times f T),
     sum_nat (map (fun k => nof (iter step k s0)) (sample_times f T))).
Proof.
  unfold measure. change s0 with (iter step 0 s0) at 1.
  rewrite measure_loop_spec. reflexivity.
Qed.

(* which steps are sampled: exactly the multiples of f in 1..T, in increasing order *)
Lemma sample_times_in f T k : In k (sample_times f T) <-> (1 <= k <= T /\ k mod f = 0).
Proof.
  unfold sample_times. rewrite filter_In, in_seq, Nat.eqb_eq. lia.
Qed.

Lemma mod_succ_cases f a : 0 < f ->
  (S a mod f = 0 /\ S a / f = S (a / f) /\ a mod f = f - 1)
  \/ (S a mod f = S (a mod f) /\ S a / f = a / f /\ a mod f < f - 1).
Proof.
  intros Hf.
  pose proof (Nat.div_mod a f ltac:(lia)) as Ha.
  pose proof (Nat.mod_upper_bound a f ltac:(lia)) as Hr.
  destruct (Nat.eq_dec (a mod f) (f - 1)) as [E|E].
  - left.
    assert (Hs : S a = f * S (a / f) + 0) by nia.
    split; [|split]; [| |assumption].
    + symmetry. apply (Nat.mod_unique _ _ (S (a / f)) 0); [lia|exact Hs].
    + symmetry. apply (Nat.div_unique _ _ (S (a / f)) 0); [lia|exact Hs].
  - right.
    assert (Hs : S a = f * (a / f) + S (a mod f)) by lia.
    split; [|split]; [| |lia].
    + symmetry. apply (Nat.mod_unique _ _ (a / f) (S (a mod f))); [lia|exact Hs].
    + symmetry. apply (Nat.div_unique _ _ (a / f) (S (a mod f))); [lia|exact Hs].
Qed.

Lemma sample_times_length f T : 0 < f -> length (sample_times f T) = T / f.
Proof.
  intros Hf. unfold sample_times. induction T as [|T IH].
  - cbn. symmetry. apply Nat.div_0_l. lia.
  - rewrite seq_S, filter_app, app_length, IH. cbn [filter].
    replace (1 + T) with (S T) by lia.
    destruct (mod_succ_cases f T Hf) as [(Hm & Hd & _)|(Hm & Hd & _)].
    + rewrite Hm. cbn. lia.
    + rewrite Hm. cbn. lia.
Qed.

Lemma sample_times_sorted f T : forall i j, i < j < length (sample_times f T) ->
  nth i (sample_times f T) 0 < nth j (sample_times f T) 0.
Proof.
  unfold sample_times. generalize 1 as a. induction T as [|T IH]; intros a i j Hij.
  - cbn in Hij. lia.
  - cbn [seq filter] in *. destruct (Nat.eqb (a mod f) 0).
    + cbn [length] in Hij. destruct j as [|j]; [lia|]. destruct i as [|i].
      * cbn [nth].
        assert (Hin : In (nth j (filter (fun k => Nat.eqb (k mod f) 0) (seq (S a) T)) 0)
                        (filter (fun k => Nat.eqb (k mod f) 0) (seq (S a) T))) by (apply nth_In; lia).
        apply filter_In in Hin. destruct Hin as [Hin _]. apply in_seq in Hin. lia.
      * cbn [nth]. apply IH. lia.
    + apply IH. exact Hij.
Qed.

(* ---------------- tempering driver: event trace ---------------- *)
(* per-step countdown form of the specification *)
Fixpoint spec_cd (sf ff : nat) (rem tsamp tswap : nat) : list event :=
  match rem with
  | O => []
  | S r =>
      let tsamp' := tsamp - 1 in
      let tswap' := tswap - 1 in
      EStep :: (if Nat.eqb tswap' 0 then [ESwap] else [])
            ++ (if Nat.eqb tsamp' 0 then [ESample] else [])
            ++ spec_cd sf ff r (if Nat.eqb tsamp' 0 then ff else tsamp') (if Nat.eqb tswap' 0 then sf else tswap')
  end.

(* a chunk of t quiet steps followed by the events of its last step *)
Lemma spec_cd_chunk sf ff : forall t rem tsamp tswap,
  1 <= t -> t <= tsamp -> t <= tswap -> t <= rem ->
  spec_cd sf ff rem tsamp tswap
  = repeat EStep t
    ++ (if Nat.eqb (tswap - t) 0 then [ESwap] else [])
    ++ (if Nat.eqb (tsamp - t) 0 then [ESample] else [])
    ++ spec_cd sf ff (rem - t) (if Nat.eqb (tsamp - t) 0 then ff else tsamp - t)
                               (if Nat.eqb (tswap - t) 0 then sf else tswap - t).
Proof.
  induction t as [|t IH]; intros rem tsamp tswap H1 Hs Hw Hr; [lia|].
  destruct rem as [|r]; [lia|].
  destruct (Nat.eq_dec t 0) as [->|Hnz].
  - cbn [spec_cd repeat app]. replace (S r - 1) with r by lia. reflexivity.
  - cbn [spec_cd].
    assert (E1 : Nat.eqb (tswap - 1) 0 = false) by (apply Nat.eqb_neq; lia).
    assert (E2 : Nat.eqb (tsamp - 1) 0 = false) by (apply Nat.eqb_neq; lia).
    rewrite E1, E2. cbn [app repeat].
    rewrite (IH r (tsamp - 1) (tswap - 1)) by lia.
    replace (tswap - 1 - t) with (tswap - S t) by lia.
    replace (tsamp - 1 - t) with (tsamp - S t) by lia.
    replace (S r - S t) with (r - t) by lia.
    reflexivity.
Qed.

Lemma driver_eq_spec_cd sf ff : 0 < sf -> 0 < ff -> forall fuel rem tsamp tswap,
  rem < fuel -> 1 <= tsamp -> 1 <= tswap ->
  driver fuel sf ff rem tsamp tswap = Some (spec_cd sf ff rem tsamp tswap).
Proof.
  intros Hsf Hff. induction fuel as [|fu IH]; intros rem tsamp tswap Hfuel Hs Hw; [lia|].
  cbn [driver]. destruct (Nat.eqb rem 0) eqn:E0.
  - apply Nat.eqb_eq in E0. subst. reflexivity.
  - apply Nat.eqb_neq in E0.
    set (t := Nat.min (Nat.min tsamp tswap) rem).
    assert (Ht : 1 <= t /\ t <= tsamp /\ t <= tswap /\ t <= rem) by (unfold t; lia).
    destruct Ht as (Ht1 & Hts & Htw & Htr).
    rewrite IH.
    + rewrite (spec_cd_chunk sf ff t rem tsamp tswap Ht1 Hts Htw Htr).
      rewrite <- !app_assoc. reflexivity.
    + lia.
    + destruct (Nat.eqb (tsamp - t) 0) eqn:E; [lia|]. apply Nat.eqb_neq in E. lia.
    + destruct (Nat.eqb (tswap - t) 0) eqn:E; [lia|]. apply Nat.eqb_neq in E. lia.
Qed.

(* countdown form = divisibility form *)
Lemma spec_cd_eq_spec_from sf ff : 0 < sf -> 0 < ff -> forall rem k tsamp tswap,
  1 <= k ->
  tsamp = ff - (k - 1) mod ff -> tswap = sf - (k - 1) mod sf ->
  spec_cd sf ff rem tsamp tswap = spec_from sf ff k rem.
Proof.
  intros Hsf Hff. induction rem as [|r IH]; intros k tsamp tswap Hk Hs Hw; [reflexivity|].
  cbn [spec_cd spec_from].
  replace k with (S (k - 1)) at 1 2 by lia.
  destruct (mod_succ_cases sf (k - 1) Hsf) as [(Hm1 & _ & Hr1)|(Hm1 & _ & Hr1)];
  destruct (mod_succ_cases ff (k - 1) Hff) as [(Hm2 & _ & Hr2)|(Hm2 & _ & Hr2)];
    rewrite Hm1, Hm2.
  - replace (Nat.eqb (tswap - 1) 0) with true by (symmetry; apply Nat.eqb_eq; lia).
    replace (Nat.eqb (tsamp - 1) 0) with true by (symmetry; apply Nat.eqb_eq; lia).
    cbn [Nat.eqb app]. repeat f_equal. apply IH; [lia| |];
      replace (S k - 1) with (S (k - 1)) by lia; lia.
  - replace (Nat.eqb (tswap - 1) 0) with true by (symmetry; apply Nat.eqb_eq; lia).
    replace (Nat.eqb (tsamp - 1) 0) with false by (symmetry; apply Nat.eqb_neq; lia).
    cbn [Nat.eqb app]. repeat f_equal. apply IH; [lia| |];
      replace (S k - 1) with (S (k - 1)) by lia; lia.
  - replace (Nat.eqb (tswap - 1) 0) with false by (symmetry; apply Nat.eqb_neq; lia).
    replace (Nat.eqb (tsamp - 1) 0) with true by (symmetry; apply Nat.eqb_eq; lia).
    cbn [Nat.eqb app]. repeat f_equal. apply IH; [lia| |];
      replace (S k - 1) with (S (k - 1)) by lia; lia.
  - replace (Nat.eqb (tswap - 1) 0) with false by (symmetry; apply Nat.eqb_neq; lia).
    replace (Nat.eqb (tsamp - 1) 0) with false by (symmetry; apply Nat.eqb_neq; lia).
    cbn [Nat.eqb app]. repeat f_equal. apply IH; [lia| |];
      replace (S k - 1) with (S (k - 1)) by lia; lia.
Qed.

Theorem driver_trace sf ff T : 0 < sf -> 0 < ff ->
  driver (S T) sf ff T ff sf = Some (spec_trace sf ff T).
Proof.
  intros Hsf Hff. rewrite (driver_eq_spec_cd sf ff Hsf Hff) by lia.
  f_equal. unfold spec_trace. apply (spec_cd_eq_spec_from sf ff Hsf Hff); [lia| |].
  - cbn. rewrite Nat.mod_0_l by lia. lia.
  - cbn. rewrite Nat.mod_0_l by lia. lia.
Qed.

Lemma count_steps_spec sf ff : forall rem k,
  length (filter (fun e => match e with EStep => true | _ => false end) (spec_from sf ff k rem)) = rem.
Proof.
  induction rem as [|r IH]; intros k; [reflexivity|].
  cbn [spec_from filter length]. rewrite !filter_app, !app_length, IH.
  destruct (Nat.eqb (k mod sf) 0); destruct (Nat.eqb (k mod ff) 0); cbn; lia.
Qed.

(* ---------------- energy accounting ---------------- *)
Open Scope Q_scope.

Lemma qsum_app a b : qsum (a ++ b) == qsum a + qsum b.
Proof. induction a as [|x a IH]; cbn [app qsum]; [lra|]. rewrite IH. lra. Qed.

Lemma firstn_add {A} t m (l : list A) : firstn (t + m) l = firstn t l ++ firstn m (skipn t l).
Proof.
  revert l. induction t as [|t IH]; intros l; [reflexivity|].
  destruct l as [|x l]; cbn [Nat.add firstn skipn app].
  - now rewrite firstn_nil.
  - now rewrite IH.
Qed.

Lemma chunk_energy_total ts : forall es,
  Forall (fun t => (0 < t)%nat) ts ->
  chunk_energy ts es == qsum (firstn (sum_nat ts) es).
Proof.
  induction ts as [|t r IH]; intros es Hpos; cbn [chunk_energy sum_nat fold_right].
  - cbn. lra.
  - inversion Hpos as [|? ? Ht Hr]; subst.
    change (fold_right Nat.add 0%nat r) with (sum_nat r).
    rewrite IH by assumption.
    assert (Hsplit := firstn_add t (sum_nat r) es).
    rewrite Hsplit, qsum_app.
    assert (Hq : ~ (Z.of_nat t # 1) == 0).
    { unfold Qeq. cbn. lia. }
    field_simplify_eq; [lra|exact Hq].
Qed.

Lemma chunks_pos sf ff : (0 < sf)%nat -> (0 < ff)%nat -> forall fuel rem tsamp tswap,
  (1 <= tsamp)%nat -> (1 <= tswap)%nat ->
  Forall (fun t => (0 < t)%nat) (chunks fuel sf ff rem tsamp tswap).
Proof.
  intros Hsf Hff. induction fuel as [|fu IH]; intros rem tsamp tswap Hs Hw; cbn [chunks]; [constructor|].
  destruct (Nat.eqb rem 0) eqn:E0; [constructor|]. apply Nat.eqb_neq in E0.
  constructor; [lia|]. apply IH.
  - destruct (Nat.eqb (tsamp - _) 0) eqn:E; [lia|]. apply Nat.eqb_neq in E. lia.
  - destruct (Nat.eqb (tswap - _) 0) eqn:E; [lia|]. apply Nat.eqb_neq in E. lia.
Qed.

Lemma chunks_sum sf ff : (0 < sf)%nat -> (0 < ff)%nat -> forall fuel rem tsamp tswap,
  (rem < fuel)%nat -> (1 <= tsamp)%nat -> (1 <= tswap)%nat ->
  sum_nat (chunks fuel sf ff rem tsamp tswap) = rem.
Proof.
  intros Hsf Hff. induction fuel as [|fu IH]; intros rem tsamp tswap Hf Hs Hw; [lia|].
  cbn [chunks]. destruct (Nat.eqb rem 0) eqn:E0.
  - apply Nat.eqb_eq in E0. now subst.
  - apply Nat.eqb_neq in E0. cbn [sum_nat fold_right].
    change (fold_right Nat.add 0%nat ?l) with (sum_nat l).
    rewrite IH; try lia.
    + destruct (Nat.eqb (tsamp - _) 0) eqn:E; [lia|]. apply Nat.eqb_neq in E. lia.
    + destruct (Nat.eqb (tswap - _) 0) eqn:E; [lia|]. apply Nat.eqb_neq in E. lia.
Qed.

(* the drivers' energy is the per-step average, whatever the swap and sampling periods *)
Theorem driver_energy_is_average sf ff T es :
  (0 < sf)%nat -> (0 < ff)%nat -> (0 < T)%nat ->
  driver_energy (chunks (S T) sf ff T ff sf) es T == qsum (firstn T es) / (Z.of_nat T # 1).
Proof.
  intros Hsf Hff HT. unfold driver_energy.
  rewrite chunk_energy_total by (apply chunks_pos; lia).
  rewrite chunks_sum by lia. reflexivity.
Qed.

(* ---- edges of the cadence ---- *)
Local Open Scope nat_scope.
(* a period longer than the run samples nothing *)
Lemma sample_times_none f T : T < f -> sample_times f T = [].
Proof.
  intros H. assert (L : length (sample_times f T) = 0).
  { rewrite sample_times_length by lia. apply Nat.div_small. exact H. }
  destruct (sample_times f T); [reflexivity|discriminate].
Qed.

(* period 1 samples after every step *)
Lemma sample_times_every_step T : sample_times 1 T = seq 1 T.
Proof.
  unfold sample_times. induction T as [|T IH]; [reflexivity|].
  rewrite seq_S, filter_app, IH. cbn [filter]. rewrite Nat.mod_1_r. reflexivity.
Qed.

(* the i-th sample (counting from 0) is taken after step (i+1) * f: the cadence in closed form *)
Lemma sample_times_closed_form f T : 0 < f -> sample_times f T = map (fun i => (i + 1) * f) (seq 0 (T / f)).
Proof.
  intros Hf. unfold sample_times. induction T as [|T IH].
  - rewrite Nat.div_0_l by lia. reflexivity.
  - rewrite seq_S, filter_app, IH. cbn [filter]. change (1 + T) with (S T).
    destruct (Nat.eqb_spec (S T mod f) 0) as [E|E].
    + assert (Q : S T / f = S (T / f)).
      { apply Nat.mod_divides in E; [|lia]. destruct E as [c Hc]. rewrite Hc.
        rewrite Nat.mul_comm, Nat.div_mul by lia.
        destruct c as [|c]; [lia|]. f_equal.
        assert (T = c * f + (f - 1)) as -> by lia.
        rewrite Nat.div_add_l by lia. rewrite Nat.div_small by lia. lia. }
      rewrite Q, seq_S, map_app. cbn [map]. f_equal. f_equal.
      apply Nat.mod_divides in E; [|lia]. destruct E as [c Hc].
      assert (S T / f = c) by (rewrite Hc, Nat.mul_comm, Nat.div_mul; lia). lia.
    + assert (Q : S T / f = T / f).
      { pose proof (Nat.div_mod (S T) f ltac:(lia)) as D1. pose proof (Nat.div_mod T f ltac:(lia)) as D2.
        pose proof (Nat.mod_upper_bound (S T) f ltac:(lia)). pose proof (Nat.mod_upper_bound T f ltac:(lia)).
        nia. }
      rewrite Q, app_nil_r. reflexivity.
Qed.
