(* Navigation through the linked structure agrees with scanning (C11, second clause: "every algorithm
   written against the navigation interface behaves identically on the optimised container and on a
   naive slot array"):
   - following the per-variable successor links from the per-variable head enumerates exactly the
     operators on that variable, in imaginary-time order (what constant_ops_on_var / spin_flips_on_var,
     the cluster and loop walks rely on);
   - following next_p from the first position enumerates exactly the occupied slots;
   - the getters read off the scan values. *)
From Coq Require Import List Bool Arith Lia Sorted.
From QmcV Require Import Model.Sse Model.Nav Model.FastOps Model.FastOpsNav
     Proofs.NavProofs Proofs.ChainLemmas Proofs.FastOpsLemmas Proofs.FastOpsProofs.
Import ListNotations.

(* ------------------------------------------------------------------ *)
(* successor in a strictly sorted list *)
Section Succ.
  Context {A : Type} (key : A -> nat).
  Definition klt' (a b : A) : Prop := key a < key b.

  Lemma first_gt_app_skip (pre : list A) (k : nat) (rest : list A) :
    Forall (fun y => key y <= k) pre -> first_gt key k (pre ++ rest) = first_gt key k rest.
  Proof.
    induction pre as [|y pre IH]; intros H; [reflexivity|].
    inversion H as [|? ? Hy Hpre]; subst. unfold first_gt in *. cbn [app find].
    destruct (Nat.ltb_spec k (key y)); [lia|]. now apply IH.
  Qed.

  Lemma sorted_split_bounds (pre : list A) x suf :
    StronglySorted klt' (pre ++ x :: suf) ->
    Forall (fun y => key y <= key x) pre /\ Forall (fun y => key x < key y) suf.
  Proof.
    induction pre as [|y pre IH]; cbn [app]; intros H.
    - inversion H as [|? ? _ Hall]; subst. split; [constructor|exact Hall].
    - inversion H as [|? ? Hs Hall]; subst. destruct (IH Hs) as [H1 H2]. split; [|exact H2].
      constructor; [|exact H1]. rewrite Forall_forall in Hall.
      assert (Hx : klt' y x) by (apply Hall, in_or_app; right; now left). unfold klt' in Hx. lia.
  Qed.

  Lemma first_gt_successor (pre : list A) x suf :
    StronglySorted klt' (pre ++ x :: suf) -> first_gt key (key x) (pre ++ x :: suf) = hd_error suf.
  Proof.
    intros H. destruct (sorted_split_bounds pre x suf H) as [Hpre Hsuf].
    rewrite first_gt_app_skip by exact Hpre. unfold first_gt. cbn [find].
    destruct (Nat.ltb_spec (key x) (key x)); [lia|].
    destruct suf as [|z suf']; [reflexivity|]. cbn [find hd_error].
    inversion Hsuf as [|? ? Hz _]; subst. destruct (Nat.ltb_spec (key x) (key z)); [reflexivity|lia].
  Qed.
End Succ.

Lemma ops_on_var_from_length (sl : slots) v : forall k, length (g_ops_on_var_from o_vars k sl v) <= length sl.
Proof.
  induction sl as [|s sl IH]; intros k; cbn [g_ops_on_var_from length]; [lia|].
  destruct s as [o|]; [destruct (index_of v (o_vars o))|]; cbn [length]; specialize (IH (S k)); lia.
Qed.

Lemma occupied_from_length_le {A} (sl : list (option A)) : forall k, length (g_occupied_from k sl) <= length sl.
Proof.
  induction sl as [|s sl IH]; intros k; cbn [g_occupied_from length]; [lia|].
  destruct s; cbn [length]; specialize (IH (S k)); lia.
Qed.

Section Walks.
Variables (nv : nat) (nb : option nat).

Lemma hd_rev_some {A} (l : list A) x : hd_error l = Some x -> exists y, hd_error (rev l) = Some y.
Proof.
  destruct l as [|a l]; [discriminate|]. intros _. cbn [rev].
  destruct (rev l) as [|b r]; cbn; eauto.
Qed.

Lemma first_for_var_of_build sl v : v < nv ->
  get_first_p_for_var (build nv nb sl) v = first_for_var sl v.
Proof.
  intros Hv. unfold get_first_p_for_var, build. cbn [f_var_ends].
  assert (Hseq : nth_error (seq 0 nv) v = Some v).
  { pose proof (@List.nth_error_nth' nat (seq 0 nv) v 0) as Hn. rewrite seq_length in Hn.
    rewrite seq_nth in Hn by exact Hv. exact (Hn Hv). }
  rewrite (nth_map_some _ _ _ _ Hseq).
  unfold first_for_var, last_for_var, g_first_for_var, g_last_for_var, ends_of.
  destruct (hd_error (g_ops_on_var o_vars sl v)) as [x|] eqn:E; [|reflexivity].
  destruct (hd_rev_some _ _ E) as [y ->]. reflexivity.
Qed.

Lemma walk_var_from_suffix sl v : forall suf pre fuel,
  ops_on_var sl v = pre ++ suf -> length suf < fuel ->
  walk_var_from fuel (build nv nb sl) (hd_error suf) = suf.
Proof.
  induction suf as [|[p relv] suf IH]; intros pre fuel HL Hf.
  - destruct fuel; reflexivity.
  - destruct fuel as [|fuel]; [cbn in Hf; lia|]. cbn [walk_var_from hd_error].
    assert (Hin : In (p, relv) (ops_on_var sl v)) by (rewrite HL; apply in_or_app; right; now left).
    apply ops_on_var_in in Hin. destruct Hin as (o & Ho & Hi). cbn [fst snd] in Ho, Hi.
    rewrite (build_node_at nv nb sl p o Ho). f_equal.
    unfold get_next_p_for_rel_var, build_node. cbn [n_next_v].
    rewrite (nth_map_some _ _ _ _ (index_of_nth_error _ _ _ Hi)).
    assert (Hs : StronglySorted (klt' fst) (pre ++ (p, relv) :: suf)).
    { rewrite <- HL. exact (ops_on_var_sorted sl v). }
    unfold next_for_var, g_next_for_var. fold (ops_on_var sl v). rewrite HL.
    change p with (fst (p, relv)) at 1. rewrite (first_gt_successor fst pre (p, relv) suf Hs).
    apply (IH (pre ++ [(p, relv)])); [rewrite <- app_assoc; exact HL|cbn in Hf; lia].
Qed.

(* following the per-variable links enumerates exactly the operators on that variable, in time order *)
Theorem walk_var_is_scan sl v : v < nv -> walk_var (build nv nb sl) v = ops_on_var sl v.
Proof.
  intros Hv. unfold walk_var. rewrite first_for_var_of_build by exact Hv.
  unfold first_for_var, g_first_for_var. fold (ops_on_var sl v).
  apply (walk_var_from_suffix sl v (ops_on_var sl v) []); [reflexivity|].
  rewrite build_length. pose proof (ops_on_var_from_length sl v 0). unfold ops_on_var, g_ops_on_var. lia.
Qed.

Lemma first_p_of_build sl : get_first_p (build nv nb sl) = first_p sl.
Proof.
  unfold get_first_p, build. cbn [f_ends]. unfold first_p, last_p, g_first_p, g_last_p, ends_of.
  destruct (hd_error (g_occupied sl)) as [x|] eqn:E; [|reflexivity].
  destruct (hd_rev_some _ _ E) as [y ->]. reflexivity.
Qed.

Lemma walk_p_from_suffix sl : forall suf pre fuel,
  occupied sl = pre ++ suf -> length suf < fuel ->
  walk_p_from fuel (build nv nb sl) (hd_error suf) = suf.
Proof.
  induction suf as [|p suf IH]; intros pre fuel HL Hf.
  - destruct fuel; reflexivity.
  - destruct fuel as [|fuel]; [cbn in Hf; lia|]. cbn [walk_p_from hd_error].
    assert (Hin : In p (occupied sl)) by (rewrite HL; apply in_or_app; right; now left).
    apply occupied_in in Hin. destruct Hin as (o & Ho).
    rewrite (build_node_at nv nb sl p o Ho). f_equal.
    unfold build_node. cbn [n_next].
    assert (Hs : StronglySorted (klt' idk) (pre ++ p :: suf)).
    { rewrite <- HL. exact (occupied_sorted' sl). }
    unfold next_p, g_next_p. fold (occupied sl). rewrite HL.
    change (first_gt (fun x : nat => x) p) with (first_gt idk (idk p)).
    rewrite (first_gt_successor idk pre p suf Hs).
    apply (IH (pre ++ [p])); [rewrite <- app_assoc; exact HL|cbn in Hf; lia].
Qed.

(* following next_p from the first position enumerates exactly the occupied slots *)
Theorem walk_p_is_scan sl : walk_p (build nv nb sl) = occupied sl.
Proof.
  unfold walk_p. rewrite first_p_of_build. unfold first_p, g_first_p. fold (occupied sl).
  apply (walk_p_from_suffix sl (occupied sl) []); [reflexivity|].
  rewrite build_length. pose proof (occupied_from_length_le sl 0). unfold occupied, g_occupied. lia.
Qed.

(* constant_ops_on_var on the linked structure = the positions of constant operators on v found by a scan *)
Theorem constant_ops_on_var_is_scan sl v : v < nv ->
  constant_ops_on_var (build nv nb sl) v
  = flat_map (fun '(p, _) => match get_op sl p with
                             | Some o => if o_const o then [p] else []
                             | None => []
                             end) (ops_on_var sl v).
Proof.
  intros Hv. unfold constant_ops_on_var. rewrite walk_var_is_scan by exact Hv.
  apply flat_map_ext. intros [p r]. unfold node_at, get_op, g_get. rewrite build_nth.
  destruct (nth_error sl p) as [[o|]|]; reflexivity.
Qed.

Theorem does_var_have_ops_is_scan sl v : v < nv ->
  does_var_have_ops (build nv nb sl) v = var_has_ops sl v.
Proof.
  intros Hv. unfold does_var_have_ops, build. cbn [f_var_ends].
  assert (Hseq : nth_error (seq 0 nv) v = Some v).
  { pose proof (@List.nth_error_nth' nat (seq 0 nv) v 0) as Hn. rewrite seq_length in Hn.
    rewrite seq_nth in Hn by exact Hv. exact (Hn Hv). }
  rewrite (nth_map_some _ _ _ _ Hseq).
  unfold first_for_var, last_for_var, g_first_for_var, g_last_for_var, var_has_ops, g_var_has_ops, ends_of.
  destruct (g_ops_on_var o_vars sl v) as [|x l] eqn:E; [reflexivity|].
  cbn [hd_error]. destruct (hd_rev_some (x :: l) x eq_refl) as [y ->]. reflexivity.
Qed.
End Walks.
