(* Glue lemmas for the convergence properties C01..C05: the cluster flip and the free-spin refresh
   leave the SSE configuration weight unchanged; a sweep made of stationary kernels is stationary;
   exchanging two replicas with the Metropolis ratio balances the product weight. *)
From Coq Require Import List QArith ZArith NArith Bool Arith Lia Lqa.
From QmcV Require Import Model.Prog Model.Sse Model.Nav Model.Ham Model.Cluster Model.ClusterValid Proofs.ProgLemmas
     Proofs.ClusterProofs Proofs.ClusterFlipProofs Proofs.SseWeight.
Import ListNotations.
Open Scope Q_scope.

Lemma skeleton_length sl sl' : skeleton sl = skeleton sl' -> length sl = length sl'.
Proof. unfold skeleton. intros H. apply (f_equal (@length _)) in H. now rewrite !map_length in H. Qed.

Theorem apply_flips_length sl st b flips : length (fst (apply_flips sl st b flips)) = length sl.
Proof. apply skeleton_length. apply apply_flips_skeleton. Qed.

(* the full SSE weight beta^n (L-n)!/L! prod w is unchanged by any combination of cluster flips *)
Theorem cluster_flip_sse_weight H beta sl st b flips :
  (forall p o, get_op sl p = Some o ->
     if is_edge o then edge_free H o
     else flip_sym H o \/ (forall a, fst (bget b p) = Some a -> nth a flips false = false)) ->
  sides_ok sl b = true ->
  sse_weight H beta (fst (apply_flips sl st b flips)) == sse_weight H beta sl.
Proof.
  intros Hs Hok. unfold sse_weight.
  rewrite apply_flips_length, apply_flips_count.
  rewrite (cluster_flip_weight_positional H sl st b flips Hs Hok). reflexivity.
Qed.

(* a sweep: any finite sequence of kernels, each leaving pi stationary, leaves pi stationary *)
Definition ksweep (N : nat) (K : nat -> nat -> Q) (Ks : list (nat -> nat -> Q)) : nat -> nat -> Q :=
  fold_left (kcomp N) Ks K.

Theorem sweep_stationary N pi Ks : forall K,
  stationary N pi K -> Forall (stationary N pi) Ks -> stationary N pi (ksweep N K Ks).
Proof.
  unfold ksweep. induction Ks as [|K' Ks IH]; intros K HK HKs; cbn [fold_left]; [exact HK|].
  inversion HKs as [|? ? H1 H2]; subst. apply IH; [|exact H2]. now apply stationary_comp.
Qed.

(* replica exchange on the product weight: pi_a(x) pi_b(y) A((x,y)->(y,x)) = pi_a(y) pi_b(x) A((y,x)->(x,y))
   with A = min(1, pi_a(y) pi_b(x) / (pi_a(x) pi_b(y))) *)
Theorem exchange_balance (pax pay pbx pby : Q) :
  0 < pax -> 0 < pay -> 0 < pbx -> 0 < pby ->
  (pax * pby) * ratio_prob (pay * pbx) (pax * pby) == (pay * pbx) * ratio_prob (pax * pby) (pay * pbx).
Proof.
  intros. apply swap_balance; apply Qmult_lt_0_compat; assumption.
Qed.

(* positions that are not exchanged keep their marginal: the pair kernel acts on two coordinates only;
   a ladder weight prod_k pi_k(x_k) restricted to the pair is proportional to pi_a(x) pi_b(y) *)
Theorem exchange_balance_in_ladder (rest pax pay pbx pby : Q) :
  0 < pax -> 0 < pay -> 0 < pbx -> 0 < pby ->
  (rest * (pax * pby)) * ratio_prob (pay * pbx) (pax * pby)
  == (rest * (pay * pbx)) * ratio_prob (pax * pby) (pay * pbx).
Proof.
  intros Ha Hb Hc Hd. pose proof (exchange_balance pax pay pbx pby Ha Hb Hc Hd) as E.
  set (r1 := ratio_prob (pay * pbx) (pax * pby)) in *. set (r2 := ratio_prob (pax * pby) (pay * pbx)) in *.
  transitivity (rest * (pax * pby * r1)); [ring|]. rewrite E. ring.
Qed.

(* when the generic sampler enables cluster updates, every interaction is symmetric under a global
   spin flip and some constant single-variable term exists to bound the clusters *)
Theorem should_cluster_spec (bonds : list interaction) :
  should_cluster bonds = true <->
  (forall i, In i bonds -> sym_under_ising i = true) /\ (exists i, In i bonds /\ is_constant i = true /\ length (it_vars i) = 1%nat).
Proof.
  unfold should_cluster, breaks_ising, has_cluster_edges. rewrite andb_true_iff, negb_true_iff. split.
  - intros [Hb He]. split.
    + intros i Hi. destruct (sym_under_ising i) eqn:E; [reflexivity|].
      assert (existsb (fun i0 => negb (sym_under_ising i0)) bonds = true) as C.
      { apply existsb_exists. exists i. split; [exact Hi|]. now rewrite E. }
      congruence.
    + apply existsb_exists in He. destruct He as [i [Hi Hc]]. apply andb_true_iff in Hc. destruct Hc as [Hc Hl].
      exists i. repeat split; [exact Hi|exact Hc|]. now apply Nat.eqb_eq.
  - intros [Hs [i [Hi [Hc Hl]]]]. split.
    + destruct (existsb (fun i0 => negb (sym_under_ising i0)) bonds) eqn:E; [|reflexivity].
      apply existsb_exists in E. destruct E as [j [Hj Hn]]. rewrite (Hs j Hj) in Hn. discriminate.
    + apply existsb_exists. exists i. split; [exact Hi|]. rewrite Hc, Hl. reflexivity.
Qed.
