(* The start of the directed loop (after fix 88da00a): one draw over ALL variable slots of the stored operators,
   then a fair direction bit.  Proved: the model's loop update IS "draw a start, then run the loop from it", and
   every leg of every stored operator is the starting leg with the same probability 1 / (2 * number of variable
   slots) — so the start probability of a loop and of its reverse (which starts on the leg at the other end of
   the first link, possibly on an operator of another arity) agree. *)
From Coq Require Import List QArith ZArith NArith Bool Arith Lia Lqa.
From QmcV Require Import Model.Prog Model.Sse Model.Nav Model.Ham Model.Cluster Model.Loop
     Proofs.ProgLemmas Proofs.NavProofs.
Import ListNotations.
Open Scope Q_scope.

Inductive start :=
| NoLegs                       (* nothing to enter: the update returns at once *)
| Bad                          (* unreachable: a variable slot that is not a leg of a stored operator *)
| Start (p : nat) (leg : nat * side).

Definition loop_start (sl : slots) : prog start :=
  if Nat.eqb (count_ops sl) 0 then Ret NoLegs
  else
    let vs := var_slots sl in
    let tv := length vs in
    if Nat.eqb tv 0 then Ret NoLegs
    else
      Unif (N.of_nat tv) (fun rN =>
        let pv := nth (N.to_nat rN mod tv) vs (0, 0)%nat in
        match get_op sl (fst pv) with
        | None => Ret Bad
        | Some o =>
            if Nat.ltb (snd pv) (length (o_vars o)) then
              Bit (fun b => Ret (Start (fst pv) (snd pv, if b then Inputs else Outputs)))
            else Ret Bad
        end).

Definition loop_from (fuel : nat) (H : ham) (sl : slots) (st : state) (s : start) : prog (option (slots * state)) :=
  match s with
  | NoLegs => Ret (Some (sl, st))
  | Bad => Ret None
  | Start p leg => loop_steps fuel H (p, leg) p leg sl st
  end.

(* the model's loop update is: draw the start, run the loop from it (same distribution over outcomes, term by term) *)
Theorem loop_update_is_start_then_loop fuel H sl st :
  denote (loop_update fuel H sl st) = denote (bind (loop_start sl) (loop_from fuel H sl st)).
Proof.
  unfold loop_update, loop_start.
  destruct (Nat.eqb (count_ops sl) 0); [reflexivity|].
  destruct (Nat.eqb (length (var_slots sl)) 0); [reflexivity|].
  cbn [bind denote]. apply flat_map_ext. intros i.
  destruct (get_op sl (fst (nth (N.to_nat (N.of_nat i) mod length (var_slots sl)) (var_slots sl) (0%nat, 0%nat)))) as [o|]; [|reflexivity].
  destruct (Nat.ltb _ _); reflexivity.
Qed.

(* ---------------- every leg is the starting leg with the same probability ---------------- *)
From QmcV Require Import Proofs.LegalityProofs.

Definition side_eqb (a b : side) : bool := Bool.eqb a b.
Definition is_start (p v : nat) (d : side) (s : start) : bool :=
  match s with
  | Start p' (v', d') => Nat.eqb p p' && Nat.eqb v v' && side_eqb d d'
  | _ => false
  end.

Lemma var_slots_in sl p v : In (p, v) (var_slots sl) <-> exists o, get_op sl p = Some o /\ (v < length (o_vars o))%nat.
Proof.
  unfold var_slots. rewrite in_flat_map. split.
  - intros (q & Hq & Hin). destruct (get_op sl q) as [o|] eqn:Ho; [|contradiction].
    apply in_map_iff in Hin. destruct Hin as (v' & E & Hv). inversion E; subst. apply in_seq in Hv. exists o. split; [exact Ho|lia].
  - intros (o & Ho & Hv). exists p. split; [apply occupied_spec; eauto|]. rewrite Ho. apply in_map. apply in_seq. lia.
Qed.

Lemma NoDup_app_intro' {A} (l1 l2 : list A) :
  NoDup l1 -> NoDup l2 -> (forall x, In x l1 -> ~ In x l2) -> NoDup (l1 ++ l2).
Proof.
  induction l1 as [|a l1 IH]; intros H1 H2 H; cbn [app]; [exact H2|].
  inversion H1 as [|? ? Ha H1']; subst. constructor.
  - intros Hin. apply in_app_or in Hin. destruct Hin as [Hin|Hin]; [contradiction|]. apply (H a); [now left|exact Hin].
  - apply IH; try assumption. intros x Hx. apply H. now right.
Qed.

Lemma NoDup_flat_map_fst {B} (f : nat -> list (nat * B)) (l : list nat) :
  NoDup l -> (forall q, NoDup (f q)) -> (forall q x, In x (f q) -> fst x = q) -> NoDup (flat_map f l).
Proof.
  intros Hl Hf Hfst. induction Hl as [|q l Hnq Hl IH]; cbn [flat_map]; [constructor|].
  apply NoDup_app_intro'; [apply Hf|exact IH|].
  intros x Hx Hx'. apply in_flat_map in Hx'. destruct Hx' as (q' & Hq' & Hin').
  apply Hfst in Hx. apply Hfst in Hin'. subst. contradiction.
Qed.

Lemma var_slots_nodup sl : NoDup (var_slots sl).
Proof.
  unfold var_slots. apply NoDup_flat_map_fst.
  - pose proof (occupied_sorted sl) as Hs. clear -Hs. induction Hs as [|a l Hs IH Hall]; constructor; [|exact IH].
    intros Hin. rewrite Forall_forall in Hall. specialize (Hall a Hin). lia.
  - intros q. destruct (get_op sl q) as [o|]; [|constructor].
    generalize (seq_NoDup (length (o_vars o)) 0). generalize (seq 0 (length (o_vars o))). intros l Hl.
    induction Hl as [|x l Hx Hl IH]; cbn [map]; constructor; [|exact IH].
    intros Hin. apply in_map_iff in Hin. destruct Hin as (y & E & Hy). inversion E; subst. contradiction.
  - intros q x Hin. destruct (get_op sl q) as [o|]; [|contradiction].
    apply in_map_iff in Hin. destruct Hin as (v & <- & _). reflexivity.
Qed.

(* a sum over the indices of a duplicate-free list that picks out one element *)
Lemma Qsum_pick {A} (eqb : A -> A -> bool) (Heq : forall a b, eqb a b = true <-> a = b) (c : Q) (d : A) :
  forall (l : list A) (x : A) (s : nat), NoDup l -> In x l ->
  Qsum (map (fun i => if eqb (nth (i - s) l d) x then c else 0) (seq s (length l))) == c.
Proof.
  induction l as [|a l IH]; intros x s Hnd Hin; [contradiction|].
  inversion Hnd as [|? ? Ha Hnd']; subst. cbn [length seq map Qsum fold_right].
  change (fold_right Qplus 0 ?m) with (Qsum m). rewrite Nat.sub_diag. cbn [nth].
  assert (Hshift : Qsum (map (fun i => if eqb (nth (i - s) (a :: l) d) x then c else 0) (seq (S s) (length l)))
                   == Qsum (map (fun i => if eqb (nth (i - S s) l d) x then c else 0) (seq (S s) (length l)))).
  { apply Qsum_ext. intros i Hi. apply in_seq in Hi. replace (i - s)%nat with (S (i - S s)) by lia. reflexivity. }
  rewrite Hshift.
  destruct Hin as [->|Hin].
  - replace (eqb x x) with true by (symmetry; now apply Heq).
    rewrite (Qsum_all_zero _ (seq (S s) (length l))); [lra|].
    intros i Hi. apply in_seq in Hi. destruct (eqb (nth (i - S s) l d) x) eqn:E; [|reflexivity].
    apply Heq in E. exfalso. apply Ha. rewrite <- E. apply nth_In. lia.
  - destruct (eqb a x) eqn:E; [apply Heq in E; subst; contradiction|]. rewrite (IH x (S s) Hnd' Hin). lra.
Qed.

Definition pv_eqb (a b : nat * nat) : bool := Nat.eqb (fst a) (fst b) && Nat.eqb (snd a) (snd b).
Lemma pv_eqb_eq a b : pv_eqb a b = true <-> a = b.
Proof.
  destruct a, b. unfold pv_eqb. cbn [fst snd]. rewrite andb_true_iff, !Nat.eqb_eq. split; [intros [-> ->]; reflexivity|intros E; inversion E; auto].
Qed.

(* UNIFORM START: every leg (p, v, d) of every stored operator is the starting leg with probability
   1 / (2 * number of variable slots), whatever the arity of its operator *)
Theorem loop_start_uniform sl p v d :
  In (p, v) (var_slots sl) ->
  mass (is_start p v d) (denote (loop_start sl)) == 1 / ((2 # 1) * (Z.of_nat (length (var_slots sl)) # 1)).
Proof.
  intros Hin. unfold loop_start.
  assert (Hocc : Nat.eqb (count_ops sl) 0 = false).
  { apply var_slots_in in Hin. destruct Hin as (o & Ho & _). apply Nat.eqb_neq. rewrite count_is_occupied.
    assert (In p (occupied sl)) by (apply occupied_spec; eauto). destruct (occupied sl); [contradiction|cbn; lia]. }
  rewrite Hocc. set (vs := var_slots sl) in *. set (tv := length vs).
  assert (Htv : (0 < tv)%nat) by (unfold tv; destruct vs; [contradiction|cbn; lia]).
  replace (Nat.eqb tv 0) with false by (symmetry; apply Nat.eqb_neq; lia).
  rewrite mass_unif.
  rewrite (Qsum_ext _ (fun i => if pv_eqb (nth (i - 0) vs (0, 0)%nat) (p, v) then (1 / (Z.of_nat tv # 1)) * (1 # 2) else 0)).
  - assert (Hz : ~ (Z.of_nat tv # 1) == 0) by (intros E; unfold Qeq in E; cbn in E; lia).
    transitivity ((1 / (Z.of_nat tv # 1)) * (1 # 2)); [|field; exact Hz].
    unfold tv. apply (Qsum_pick pv_eqb pv_eqb_eq _ (0, 0)%nat vs (p, v) 0%nat (var_slots_nodup sl) Hin).
  - intros i Hi. apply in_seq in Hi. rewrite Nnat.Nat2N.id, Nat.sub_0_r, Nat.mod_small by lia.
    assert (Hin_i : In (nth i vs (0, 0)%nat) vs) by (apply nth_In; lia).
    destruct (nth i vs (0, 0)%nat) as [q w] eqn:En. cbn [fst snd].
    apply var_slots_in in Hin_i. destruct Hin_i as (o & Ho & Hw). rewrite Ho.
    replace (Nat.ltb w (length (o_vars o))) with true by (symmetry; apply Nat.ltb_lt; exact Hw).
    rewrite mass_bit, !mass_ret. unfold is_start, pv_eqb, side_eqb. cbn [fst snd].
    rewrite (Nat.eqb_sym q p), (Nat.eqb_sym w v).
    destruct (Nat.eqb p q && Nat.eqb v w)%bool; cbn [andb]; destruct d; cbn; lra.
Qed.
