(* Lemmas about the Interaction model (C16). *)
From Coq Require Import List QArith ZArith NArith Bool Arith Lia.
From QmcV Require Import Model.Sse Model.Ham.
Import ListNotations.

(* ---------------- sizes ---------------- *)
Lemma power_of_two_spec n i : power_of_two n = Some i -> (2 ^ i)%nat = n.
Proof.
  unfold power_of_two. destruct (Nat.eqb (2 ^ Nat.log2 n) n) eqn:E; [|discriminate].
  intros H; inversion H; subst. now apply Nat.eqb_eq.
Qed.

Lemma power_of_two_complete i : power_of_two (2 ^ i) = Some i.
Proof.
  unfold power_of_two. rewrite Nat.log2_pow2 by lia. now rewrite Nat.eqb_refl.
Qed.

Lemma even_div2 i : Nat.even i = true -> i = (2 * Nat.div2 i)%nat.
Proof.
  intros H. apply Nat.even_spec in H. destruct H as [k ->].
  now rewrite Nat.div2_double.
Qed.

Lemma mat_var_size_spec n k : mat_var_size n = Some k -> (4 ^ k)%nat = n.
Proof.
  unfold mat_var_size. destruct (power_of_two n) as [i|] eqn:P; [|discriminate].
  destruct (Nat.even i) eqn:Ev; [|discriminate].
  intros H; inversion H; subst. apply power_of_two_spec in P.
  rewrite <- P. rewrite (even_div2 i Ev) at 2.
  rewrite Nat.pow_mul_r. reflexivity.
Qed.

Lemma mat_var_size_complete k : mat_var_size (4 ^ k) = Some k.
Proof.
  unfold mat_var_size.
  replace (4 ^ k)%nat with (2 ^ (2 * k))%nat by (rewrite Nat.pow_mul_r; reflexivity).
  rewrite power_of_two_complete.
  replace (Nat.even (2 * k)) with true.
  - now rewrite Nat.div2_double.
  - symmetry. apply Nat.even_spec. now exists k.
Qed.

(* ---------------- negativity ---------------- *)
Lemma has_negative_false l : has_negative l = false -> Forall (fun q => 0 <= q)%Q l.
Proof.
  unfold has_negative. induction l as [|x l IH]; cbn [existsb]; intros H; constructor.
  - apply orb_false_iff in H. destruct H as [H _].
    apply negb_false_iff in H. now apply Qle_bool_iff.
  - apply IH. apply orb_false_iff in H. tauto.
Qed.

Lemma has_negative_true l : has_negative l = true -> exists q, In q l /\ ~ (0 <= q)%Q.
Proof.
  unfold has_negative. intros H. apply existsb_exists in H. destruct H as [q [Hin Hq]].
  exists q. split; [assumption|]. intros Hle. apply Qle_bool_iff in Hle. rewrite Hle in Hq. discriminate.
Qed.

(* ---------------- all_same ---------------- *)
Lemma all_same_from_spec p l :
  all_same_from p l = true <-> Forall (fun x => p == x)%Q l.
Proof.
  revert p. induction l as [|x l IH]; intros p; cbn [all_same_from].
  - split; constructor.
  - rewrite andb_true_iff, IH. split.
    + intros [H1 H2]. apply Qeq_bool_iff in H1. constructor; [assumption|].
      eapply Forall_impl; [|exact H2]. cbn. intros a Ha. now rewrite H1.
    + intros H. inversion H as [|? ? H1 H2]; subst. split.
      * now apply Qeq_bool_iff.
      * eapply Forall_impl; [|exact H2]. cbn. intros a Ha. now rewrite <- H1.
Qed.

Lemma all_same_spec l :
  all_same l = true <-> (forall a b, In a l -> In b l -> (a == b)%Q).
Proof.
  destruct l as [|x l]; cbn [all_same].
  - split; [intros _ a b []|reflexivity].
  - rewrite all_same_from_spec, Forall_forall. split.
    + intros H a b [<-|Ha] [<-|Hb].
      * reflexivity.
      * now apply H.
      * symmetry. now apply H.
      * rewrite <- (H a Ha). now apply H.
    + intros H y Hy. apply H; [now left|now right].
Qed.

(* ---------------- constructors ---------------- *)
Lemma new_full_ok mat vars i :
  new_full mat vars = COk i ->
  it_mat i = mat /\ it_vars i = vars /\ it_n i = length vars /\
  length mat = (4 ^ length vars)%nat /\
  Forall (fun q => 0 <= q)%Q mat /\
  it_type i = IFull (all_same mat) /\
  it_cdiag i = all_same (diag_entries (length vars) mat).
Proof.
  unfold new_full. destruct (has_negative mat) eqn:Hn; [discriminate|].
  destruct (mat_var_size (length mat)) as [n|] eqn:Hs; [|discriminate].
  destruct (Nat.eqb n (length vars)) eqn:He; cbn [negb]; [|discriminate].
  apply Nat.eqb_eq in He. subst n.
  intros H; inversion H; subst; cbn.
  repeat split; auto.
  - symmetry. now apply mat_var_size_spec.
  - now apply has_negative_false.
Qed.

Lemma new_diag_ok mat vars i :
  new_diag mat vars = COk i ->
  it_mat i = mat /\ it_vars i = vars /\ it_n i = length vars /\
  length mat = (2 ^ length vars)%nat /\
  Forall (fun q => 0 <= q)%Q mat /\
  it_type i = IDiag /\
  it_cdiag i = all_same mat.
Proof.
  unfold new_diag. destruct (has_negative mat) eqn:Hn; [discriminate|].
  destruct (power_of_two (length mat)) as [n|] eqn:Hs; [|discriminate].
  destruct (Nat.eqb n (length vars)) eqn:He; [|discriminate].
  apply Nat.eqb_eq in He. subst n.
  intros H; inversion H; subst; cbn.
  repeat split; auto.
  - symmetry. now apply power_of_two_spec.
  - now apply has_negative_false.
Qed.

(* rejection: wrong size or a negative weight is never accepted, and these are the
   only reasons for rejection *)
Lemma new_full_accepts mat vars :
  (exists i, new_full mat vars = COk i) <->
  (length mat = (4 ^ length vars)%nat /\ Forall (fun q => 0 <= q)%Q mat).
Proof.
  split.
  - intros [i H]. apply new_full_ok in H. tauto.
  - intros [Hl Hp]. unfold new_full.
    destruct (has_negative mat) eqn:Hn.
    + apply has_negative_true in Hn. destruct Hn as [q [Hin Hq]].
      rewrite Forall_forall in Hp. exfalso. apply Hq. now apply Hp.
    + rewrite Hl, mat_var_size_complete, Nat.eqb_refl. cbn. eauto.
Qed.

Lemma new_diag_accepts mat vars :
  (exists i, new_diag mat vars = COk i) <->
  (length mat = (2 ^ length vars)%nat /\ Forall (fun q => 0 <= q)%Q mat).
Proof.
  split.
  - intros [i H]. apply new_diag_ok in H. tauto.
  - intros [Hl Hp]. unfold new_diag.
    destruct (has_negative mat) eqn:Hn.
    + apply has_negative_true in Hn. destruct Hn as [q [Hin Hq]].
      rewrite Forall_forall in Hp. exfalso. apply Hq. now apply Hp.
    + rewrite Hl, power_of_two_complete, Nat.eqb_refl. eauto.
Qed.

(* ---------------- lookup ---------------- *)
Lemma index_of_bits_app_aux bs acc :
  fold_left (fun a (b : bool) => (2 * a + (if b then 1 else 0))%nat) bs acc
  = (acc * 2 ^ length bs + index_of_bits bs)%nat.
Proof.
  unfold index_of_bits. revert acc. induction bs as [|b bs IH]; intros acc; cbn [fold_left length].
  - cbn. lia.
  - rewrite IH. rewrite (IH (2 * 0 + _)%nat). rewrite Nat.pow_succ_r'. destruct b; lia.
Qed.

Lemma index_of_bits_lt bs : (index_of_bits bs < 2 ^ length bs)%nat.
Proof.
  induction bs as [|b bs IH].
  - cbn. lia.
  - unfold index_of_bits in *. cbn [fold_left length]. rewrite index_of_bits_app_aux.
    unfold index_of_bits. rewrite Nat.pow_succ_r'. destruct b; lia.
Qed.

Lemma index_from_state_lt ins outs n :
  length ins = n -> length outs = n -> (index_from_state ins outs < 4 ^ n)%nat.
Proof.
  intros Hi Ho. unfold index_from_state.
  pose proof (index_of_bits_lt (outs ++ ins)) as H.
  rewrite app_length, Hi, Ho in H.
  replace (4 ^ n)%nat with (2 ^ (n + n))%nat; [exact H|].
  replace (n + n)%nat with (2 * n)%nat by lia. now rewrite Nat.pow_mul_r.
Qed.

(* outputs are more significant than inputs; within each, the first variable is most significant *)
Lemma index_from_state_split ins outs :
  index_from_state ins outs = (index_of_bits outs * 2 ^ length ins + index_of_bits ins)%nat.
Proof.
  unfold index_from_state, index_of_bits. rewrite fold_left_app.
  now rewrite index_of_bits_app_aux.
Qed.

Lemma nth_error_nth' {A} (l : list A) n d : (n < length l)%nat -> nth_error l n = Some (nth n l d).
Proof. intros H. now apply nth_error_nth'. Qed.

Lemma at_full_spec mat vars i ins outs :
  new_full mat vars = COk i ->
  length ins = length vars -> length outs = length vars ->
  exists q, inter_at i ins outs = Some q /\ (q == nth (index_from_state ins outs) mat 0)%Q.
Proof.
  intros H Hi Ho. apply new_full_ok in H.
  destruct H as (Hm & Hv & Hn & Hl & Hp & Ht & Hc).
  unfold inter_at. rewrite Hn, Hi, Ho, Nat.eqb_refl. cbn [andb negb]. rewrite Ht, Hm.
  pose proof (index_from_state_lt ins outs (length vars) Hi Ho) as Hlt. rewrite <- Hl in Hlt.
  destruct (all_same mat) eqn:Hs.
  - exists (nth 0 mat 0%Q). split; [reflexivity|].
    apply all_same_spec with (a := nth 0 mat 0%Q) (b := nth (index_from_state ins outs) mat 0%Q) in Hs;
      [exact Hs| |]; apply nth_In; lia.
  - exists (nth (index_from_state ins outs) mat 0%Q). split; [|reflexivity].
    now apply nth_error_nth'.
Qed.

Lemma bools_eqb_eq a b : bools_eqb a b = true <-> a = b.
Proof.
  unfold bools_eqb. revert b. induction a as [|x a IH]; intros [|y b]; cbn [list_beq]; try (split; congruence).
  rewrite andb_true_iff, IH. split.
  - intros [H1 H2]. apply eqb_prop in H1. congruence.
  - intros H. inversion H; subst. split; [apply eqb_reflx|reflexivity].
Qed.

Lemma at_diag_spec mat vars i ins outs :
  new_diag mat vars = COk i ->
  length ins = length vars -> length outs = length vars ->
  inter_at i ins outs = Some (if bools_eqb ins outs then nth (index_of_bits ins) mat 0%Q else 0%Q).
Proof.
  intros H Hi Ho. apply new_diag_ok in H.
  destruct H as (Hm & Hv & Hn & Hl & Hp & Ht & Hc).
  unfold inter_at. rewrite Hn, Hi, Ho, Nat.eqb_refl. cbn [andb negb]. rewrite Ht, Hm.
  destruct (bools_eqb ins outs); [|reflexivity].
  apply nth_error_nth'. rewrite Hl, <- Hi. apply index_of_bits_lt.
Qed.

(* every weight an accepted interaction can return is non-negative *)
Lemma nth_nonneg (mat : list Q) k : Forall (fun q => 0 <= q)%Q mat -> (0 <= nth k mat 0)%Q.
Proof.
  intros H. destruct (Nat.lt_ge_cases k (length mat)) as [Hk|Hk].
  - rewrite Forall_forall in H. apply H. now apply nth_In.
  - rewrite nth_overflow by assumption. apply Qle_refl.
Qed.

Lemma nth_error_nonneg (mat : list Q) k q :
  Forall (fun q => 0 <= q)%Q mat -> nth_error mat k = Some q -> (0 <= q)%Q.
Proof.
  intros H E. rewrite Forall_forall in H. apply H. eapply nth_error_In; eauto.
Qed.

Lemma inter_at_nonneg i ins outs q :
  Forall (fun q => 0 <= q)%Q (it_mat i) -> inter_at i ins outs = Some q -> (0 <= q)%Q.
Proof.
  intros Hp. unfold inter_at.
  destruct (negb _); [discriminate|].
  destruct (it_type i) as [[|]|].
  - intros H; inversion H; subst. now apply nth_nonneg.
  - now apply nth_error_nonneg.
  - destruct (bools_eqb ins outs).
    + now apply nth_error_nonneg.
    + intros H; inversion H; subst. apply Qle_refl.
Qed.

(* ---------------- classification ---------------- *)
Lemma sym_scan_spec mat :
  sym_scan mat = true <->
  (forall idx, (idx < length mat)%nat -> (nth idx mat 0 == nth (length mat - 1 - idx) mat 0)%Q).
Proof.
  unfold sym_scan. rewrite forallb_forall. split.
  - intros H idx Hlt. apply Qeq_bool_iff. apply H. apply in_seq. lia.
  - intros H idx Hin. apply in_seq in Hin. apply Qeq_bool_iff. apply H. lia.
Qed.

Lemma all_same_nth mat :
  all_same mat = true <->
  (forall a b, (a < length mat)%nat -> (b < length mat)%nat -> (nth a mat 0 == nth b mat 0)%Q).
Proof.
  rewrite all_same_spec. split.
  - intros H a b Ha Hb. apply H; now apply nth_In.
  - intros H a b Ha Hb. apply (In_nth _ _ 0%Q) in Ha. apply (In_nth _ _ 0%Q) in Hb.
    destruct Ha as [ka [Hka <-]]. destruct Hb as [kb [Hkb <-]]. now apply H.
Qed.

Lemma sym_of_all_same mat : all_same mat = true -> sym_scan mat = true.
Proof.
  intros H. apply sym_scan_spec. intros idx Hlt.
  apply (proj1 (all_same_nth mat) H); lia.
Qed.

Lemma sym_full_spec mat vars i :
  new_full mat vars = COk i ->
  (sym_under_ising i = true <->
   forall idx, (idx < length mat)%nat -> (nth idx mat 0 == nth (length mat - 1 - idx) mat 0)%Q).
Proof.
  intros H. apply new_full_ok in H. destruct H as (Hm & Hv & Hn & Hl & Hp & Ht & Hc).
  unfold sym_under_ising. rewrite Ht, Hm. destruct (all_same mat) eqn:Hs.
  - split; [intros _|reflexivity]. apply sym_scan_spec. now apply sym_of_all_same.
  - apply sym_scan_spec.
Qed.

Lemma sym_diag_spec mat vars i :
  new_diag mat vars = COk i ->
  (sym_under_ising i = true <->
   forall idx, (idx < length mat)%nat -> (nth idx mat 0 == nth (length mat - 1 - idx) mat 0)%Q).
Proof.
  intros H. apply new_diag_ok in H. destruct H as (Hm & Hv & Hn & Hl & Hp & Ht & Hc).
  unfold sym_under_ising. rewrite Ht, Hc, Hm. destruct (all_same mat) eqn:Hs.
  - split; [intros _|reflexivity]. apply sym_scan_spec. now apply sym_of_all_same.
  - apply sym_scan_spec.
Qed.

Lemma const_full_spec mat vars i :
  new_full mat vars = COk i ->
  (is_constant i = true <->
   forall a b, (a < length mat)%nat -> (b < length mat)%nat -> (nth a mat 0 == nth b mat 0)%Q).
Proof.
  intros H. apply new_full_ok in H. destruct H as (Hm & Hv & Hn & Hl & Hp & Ht & Hc).
  unfold is_constant. rewrite Ht. rewrite <- all_same_nth.
  destruct (all_same mat); split; congruence.
Qed.

Lemma const_diag_never mat vars i : new_diag mat vars = COk i -> is_constant i = false.
Proof.
  intros H. apply new_diag_ok in H. destruct H as (Hm & Hv & Hn & Hl & Hp & Ht & Hc).
  unfold is_constant. now rewrite Ht.
Qed.

Lemma nth_map_seq {A} (f : nat -> A) k r d : (r < k)%nat -> nth r (map f (seq 0 k)) d = f r.
Proof.
  intros Hr. rewrite (nth_indep _ d (f 0%nat)) by (rewrite map_length, seq_length; exact Hr).
  rewrite map_nth. now rewrite seq_nth.
Qed.

Lemma diag_entries_nth n mat r :
  (r < 2 ^ n)%nat -> nth r (diag_entries n mat) 0%Q = nth (r * 2 ^ n + r) mat 0%Q.
Proof.
  intros Hr. unfold diag_entries. now rewrite nth_map_seq.
Qed.

Lemma cdiag_full_spec mat vars i :
  new_full mat vars = COk i ->
  (is_constant_diag i = true <->
   forall r s, (r < 2 ^ length vars)%nat -> (s < 2 ^ length vars)%nat ->
     (nth (r * 2 ^ length vars + r) mat 0 == nth (s * 2 ^ length vars + s) mat 0)%Q).
Proof.
  intros H. apply new_full_ok in H. destruct H as (Hm & Hv & Hn & Hl & Hp & Ht & Hc).
  unfold is_constant_diag. rewrite Hc, all_same_nth.
  unfold diag_entries at 1 2. rewrite map_length, seq_length.
  split; intros H r s Hr Hs.
  - rewrite <- !diag_entries_nth by assumption. now apply H.
  - rewrite !diag_entries_nth by assumption. now apply H.
Qed.

Lemma cdiag_diag_spec mat vars i :
  new_diag mat vars = COk i ->
  (is_constant_diag i = true <->
   forall a b, (a < length mat)%nat -> (b < length mat)%nat -> (nth a mat 0 == nth b mat 0)%Q).
Proof.
  intros H. apply new_diag_ok in H. destruct H as (Hm & Hv & Hn & Hl & Hp & Ht & Hc).
  unfold is_constant_diag. rewrite Hc. apply all_same_nth.
Qed.

(* the offset constructors go through the plain ones *)
Lemma new_full_offset_via mat vars r m :
  new_full_offset mat vars = (r, m) -> r = CErr \/ exists mat', r = new_full mat' vars /\ length mat' = length mat.
Proof.
  unfold new_full_offset. destruct (mat_var_size (length mat)) as [n|]; [|intros H; inversion H; now left].
  destruct (diag_entries n mat) as [|x l]; [intros H; inversion H; now left|].
  intros H; inversion H; subst. right. eexists. split; [reflexivity|].
  unfold sub_diag. rewrite map_length, combine_length, seq_length. lia.
Qed.

Lemma new_diag_offset_via mat vars r m :
  new_diag_offset mat vars = (r, m) -> r = CErr \/ exists mat', r = new_diag mat' vars /\ length mat' = length mat.
Proof.
  unfold new_diag_offset. destruct mat as [|x l]; [intros H; inversion H; now left|].
  intros H; inversion H; subst. right. eexists. split; [reflexivity|].
  cbn [length]. now rewrite map_length.
Qed.
