(* Replica exchange: the model's swap probability p_swap equals the ratio of the
   SSE configuration weights of the exchanged and the original assignment.

   Main results
     relative_weight_is_weight_ratio :
        relative_weight self h * W_self(slots self) == W_h(slots self)
     p_swap_is_weight_ratio :
        p_swap a b * (sse_a(slots a) * sse_b(slots b)) == sse_a(slots b) * sse_b(slots a)
     p_swap_is_weight_ratio_checked : the same from one boolean check
     swap_example_* : a concrete 2-replica instance satisfying every hypothesis. *)
From Coq Require Import List QArith Qpower ZArith NArith Bool Arith Lia Lqa.
From QmcV Require Import Model.Prog Model.Sse Model.Ham Model.Diagonal Model.Tempering
  Proofs.ProgLemmas Proofs.TemperingProofs Proofs.ConvertProofs Proofs.SseWeight.
Import ListNotations.
Open Scope Q_scope.

(* ------------------------------------------------------------------ *)
(* Hypotheses on a pair of Ising models.                               *)

(* same number of variables, same presence of the longitudinal term, edge lists of
   the same length (implied by Forall2) whose couplings are pairwise non-zero and of
   the same sign (j * j' > 0), both transverse fields positive, and longitudinal
   fields non-zero of the same sign when present.  The variable pairs of the edges
   are NOT needed: the weights only depend on the couplings. *)
Definition compatible (gs gh : ising) : Prop :=
  i_nvars gs = i_nvars gh
  /\ has_long gs = has_long gh
  /\ Forall2 (fun e e' : nat * nat * Q => 0 < snd e * snd e') (i_edges gs) (i_edges gh)
  /\ 0 < i_gamma gs
  /\ 0 < i_gamma gh
  /\ (has_long gs = true -> 0 < i_h gs * i_h gh).

(* boolean version *)
Definition qposb (q : Q) : bool := negb (Qle_bool q 0).

Fixpoint pos_pairs (l l' : list (nat * nat * Q)) : bool :=
  match l, l' with
  | [], [] => true
  | e :: r, e' :: r' => qposb (snd e * snd e') && pos_pairs r r'
  | _, _ => false
  end.

Definition compatb (gs gh : ising) : bool :=
  Nat.eqb (i_nvars gs) (i_nvars gh)
  && Bool.eqb (has_long gs) (has_long gh)
  && pos_pairs (i_edges gs) (i_edges gh)
  && qposb (i_gamma gs)
  && qposb (i_gamma gh)
  && (if has_long gs then qposb (i_h gs * i_h gh) else true).

Lemma qposb_true q : qposb q = true -> 0 < q.
Proof.
  unfold qposb. intros H. apply negb_true_iff in H.
  assert (~ q <= 0) by (intros H'; apply Qle_bool_iff in H'; congruence). lra.
Qed.

Lemma pos_pairs_sound l : forall l', pos_pairs l l' = true ->
  Forall2 (fun e e' : nat * nat * Q => 0 < snd e * snd e') l l'.
Proof.
  induction l as [|e r IH]; intros [|e' r'] H; cbn [pos_pairs] in H; try discriminate.
  - constructor.
  - apply andb_prop in H. destruct H as [H1 H2]. constructor; [now apply qposb_true|now apply IH].
Qed.

Lemma compatb_sound gs gh : compatb gs gh = true -> compatible gs gh.
Proof.
  unfold compatb, compatible. intros H.
  repeat (apply andb_prop in H; let H' := fresh "H" in destruct H as [H H']).
  repeat split.
  - now apply Nat.eqb_eq.
  - now apply Bool.eqb_prop.
  - now apply pos_pairs_sound.
  - now apply qposb_true.
  - now apply qposb_true.
  - intros E. rewrite E in *. now apply qposb_true.
Qed.

Lemma Forall2_pos_sym (l l' : list (nat * nat * Q)) :
  Forall2 (fun e e' : nat * nat * Q => 0 < snd e * snd e') l l' ->
  Forall2 (fun e e' : nat * nat * Q => 0 < snd e * snd e') l' l.
Proof. induction 1; constructor; [lra|assumption]. Qed.

Lemma compatible_sym gs gh : compatible gs gh -> compatible gh gs.
Proof.
  intros (Hnv & Hl & Hf & Hg & Hg' & Hh). repeat split; auto.
  - now apply Forall2_pos_sym.
  - intros E. rewrite <- Hl in E. specialize (Hh E). lra.
Qed.

Lemma Forall2_same_length {A B} (P : A -> B -> Prop) l l' :
  Forall2 P l l' -> length l = length l'.
Proof. induction 1; cbn [length]; congruence. Qed.

Lemma Forall2_nth_error {A B} (P : A -> B -> Prop) l l' :
  Forall2 P l l' -> forall k x, nth_error l k = Some x ->
  exists y, nth_error l' k = Some y /\ P x y.
Proof.
  induction 1 as [|x0 y0 l l' Hp Hf IH]; intros [|k] x E; cbn [nth_error] in *; try discriminate.
  - inversion E; subst. eauto.
  - eauto.
Qed.

(* ------------------------------------------------------------------ *)
(* Small arithmetic facts.                                              *)

Lemma qpowz_S q n : qpowz q (Z.of_nat (S n)) == q * qpowz q (Z.of_nat n).
Proof. unfold qpowz. rewrite <- !qpow_Qpower. reflexivity. Qed.

Lemma qpowz_0 q : qpowz q (Z.of_nat 0) == 1.
Proof. reflexivity. Qed.

Lemma qpow_pos q n : 0 < q -> 0 < qpow q n.
Proof.
  intros Hq. induction n as [|n IH]; cbn [qpow]; [lra|]. apply Qmult_lt_0_compat; assumption.
Qed.

Lemma weight_product_none H sl : weight_product H (None :: sl) = weight_product H sl.
Proof. reflexivity. Qed.

Lemma weight_product_some H o sl :
  weight_product H (Some o :: sl) = op_weight H o * weight_product H sl.
Proof. reflexivity. Qed.

(* ------------------------------------------------------------------ *)
(* Bond counts when an operator is prepended.                           *)

Lemma count_bond_some b o sl :
  count_bond b (Some o :: sl)
  = if Nat.eqb (o_bond o) b then S (count_bond b sl) else count_bond b sl.
Proof. unfold count_bond. cbn [filter]. destruct (Nat.eqb (o_bond o) b); reflexivity. Qed.

Lemma fold_plus_init (g : nat -> nat) l c :
  fold_right (fun b acc => g b + acc)%nat c l = (fold_right (fun b acc => g b + acc)%nat 0%nat l + c)%nat.
Proof. induction l as [|x l IH]; cbn [fold_right]; [reflexivity|]. rewrite IH. lia. Qed.

Lemma count_range_S sl lo n :
  count_range sl lo (S n) = (count_range sl lo n + count_bond (lo + n) sl)%nat.
Proof.
  unfold count_range. rewrite seq_S, fold_right_app. cbn [fold_right Nat.add].
  rewrite fold_plus_init. lia.
Qed.

Lemma count_range_0 sl lo : count_range sl lo 0 = 0%nat.
Proof. reflexivity. Qed.

Lemma count_range_in o sl lo n :
  (lo <= o_bond o < lo + n)%nat -> count_range (Some o :: sl) lo n = S (count_range sl lo n).
Proof.
  induction n as [|n IH]; intros Hb; [lia|].
  rewrite !count_range_S, count_bond_some.
  destruct (Nat.eqb_spec (o_bond o) (lo + n)) as [E|E].
  - assert (Hout : forall m, (m <= n)%nat -> count_range (Some o :: sl) lo m = count_range sl lo m).
    { induction m as [|m IHm]; intros Hm; [reflexivity|].
      rewrite !count_range_S, count_bond_some, IHm by lia.
      destruct (Nat.eqb_spec (o_bond o) (lo + m)); [lia|reflexivity]. }
    rewrite Hout by lia. lia.
  - rewrite IH by lia. lia.
Qed.

Lemma count_range_out o sl lo n :
  (o_bond o < lo \/ lo + n <= o_bond o)%nat -> count_range (Some o :: sl) lo n = count_range sl lo n.
Proof.
  induction n as [|n IH]; intros Hb; [reflexivity|].
  rewrite !count_range_S, count_bond_some, IH by lia.
  destruct (Nat.eqb_spec (o_bond o) (lo + n)); [lia|reflexivity].
Qed.

Lemma count_range_nil lo n : count_range [] lo n = 0%nat.
Proof. induction n as [|n IH]; [reflexivity|]. rewrite count_range_S, IH. reflexivity. Qed.

(* ------------------------------------------------------------------ *)
(* The edge part of relative_weight as a structural product.            *)

Fixpoint edge_prod (start : nat) (eh es : list (nat * nat * Q)) (sl : slots) : Q :=
  match eh, es with
  | (_, _, ja) :: eh', (_, _, jb) :: es' =>
      qpowz (ja / jb) (Z.of_nat (count_bond start sl)) * edge_prod (S start) eh' es' sl
  | _, _ => 1
  end.

(* factor picked up by edge_prod when an operator on bond b is prepended *)
Fixpoint edge_ratio (start : nat) (eh es : list (nat * nat * Q)) (b : nat) : Q :=
  match eh, es with
  | (_, _, ja) :: eh', (_, _, jb) :: es' =>
      (if Nat.eqb b start then ja / jb else 1) * edge_ratio (S start) eh' es' b
  | _, _ => 1
  end.

Lemma fold_edge sl es : forall eh start acc,
  fold_left (fun acc '(b, ((_, _, ja), (_, _, jb))) =>
               acc * qpowz (ja / jb) (Z.of_nat (count_bond b sl)))
            (combine (seq start (length es)) (combine eh es)) acc
  == acc * edge_prod start eh es sl.
Proof.
  induction es as [|[[x y] jb] es IH]; intros eh start acc.
  - destruct eh as [|[[x' y'] ja] eh]; cbn; ring.
  - destruct eh as [|[[x' y'] ja] eh].
    + cbn. ring.
    + cbn [length seq combine fold_left edge_prod]. rewrite IH. ring.
Qed.

Lemma edge_prod_nil es : forall eh start, edge_prod start eh es [] == 1.
Proof.
  induction es as [|[[x y] jb] es IH]; intros [|[[x' y'] ja] eh] start; cbn [edge_prod]; try reflexivity.
  rewrite IH. change (count_bond start []) with 0%nat. rewrite qpowz_0. ring.
Qed.

Lemma edge_prod_none es : forall eh start sl,
  edge_prod start eh es (None :: sl) = edge_prod start eh es sl.
Proof.
  induction es as [|[[x y] jb] es IH]; intros [|[[x' y'] ja] eh] start sl; cbn [edge_prod]; try reflexivity.
  rewrite IH. reflexivity.
Qed.

Lemma edge_prod_some o es : forall eh start sl,
  edge_prod start eh es (Some o :: sl)
  == edge_ratio start eh es (o_bond o) * edge_prod start eh es sl.
Proof.
  induction es as [|[[x y] jb] es IH]; intros [|[[x' y'] ja] eh] start sl;
    cbn [edge_prod edge_ratio]; try ring.
  rewrite IH, count_bond_some.
  destruct (Nat.eqb (o_bond o) start); [rewrite qpowz_S|]; ring.
Qed.

Lemma edge_ratio_out es : forall eh start b,
  (b < start \/ start + length es <= b)%nat -> edge_ratio start eh es b == 1.
Proof.
  induction es as [|[[x y] jb] es IH]; intros [|[[x' y'] ja] eh] start b Hb;
    cbn [edge_ratio]; try reflexivity.
  cbn [length] in Hb. rewrite IH by lia.
  destruct (Nat.eqb_spec b start); [lia|ring].
Qed.

Lemma edge_ratio_nth k : forall eh es start x y j x' y' j',
  nth_error eh k = Some (x', y', j') -> nth_error es k = Some (x, y, j) ->
  edge_ratio start eh es (start + k) == j' / j.
Proof.
  induction k as [|k IH]; intros [|e' eh] [|e es] start x y j x' y' j' E' E;
    cbn [nth_error] in *; try discriminate.
  - inversion E; inversion E'; subst. cbn [edge_ratio].
    rewrite edge_ratio_out by lia.
    replace (start + 0)%nat with start by lia. rewrite Nat.eqb_refl. ring.
  - destruct e' as [[a' b'] ja], e as [[a b] jb]. cbn [edge_ratio].
    replace (start + S k)%nat with (S start + k)%nat by lia.
    rewrite (IH eh es (S start) x y j x' y' j' E' E).
    destruct (Nat.eqb_spec (S start + k) start); [lia|ring].
Qed.

(* ------------------------------------------------------------------ *)
(* relative_weight as a function of the two models and the slot list.   *)

Definition rel (gs gh : ising) (sl : slots) : Q :=
  let ne := length (i_edges gs) in
  let nv := i_nvars gs in
  let bond_ratio :=
    fold_left (fun acc '(b, ((_, _, ja), (_, _, jb))) =>
                 acc * qpowz (ja / jb) (Z.of_nat (count_bond b sl)))
              (combine (seq 0 ne) (combine (i_edges gh) (i_edges gs))) 1 in
  let t_ratio := qpowz (i_gamma gh / i_gamma gs) (Z.of_nat (count_range sl ne nv)) in
  if has_long gs then
    bond_ratio * t_ratio * qpowz (i_h gh / i_h gs) (Z.of_nat (count_range sl (ne + nv) nv))
  else bond_ratio * t_ratio.

Lemma relative_weight_rel self h :
  relative_weight self h = rel (rp_ham self) (rp_ham h) (rp_slots self).
Proof. reflexivity. Qed.

(* closed form: structural product over the edges, and two powers *)
Definition rel' (gs gh : ising) (sl : slots) : Q :=
  let ne := length (i_edges gs) in
  let nv := i_nvars gs in
  edge_prod 0 (i_edges gh) (i_edges gs) sl
  * qpowz (i_gamma gh / i_gamma gs) (Z.of_nat (count_range sl ne nv))
  * (if has_long gs
     then qpowz (i_h gh / i_h gs) (Z.of_nat (count_range sl (ne + nv) nv))
     else 1).

Lemma rel_rel' gs gh sl : rel gs gh sl == rel' gs gh sl.
Proof.
  unfold rel, rel'. cbv zeta.
  destruct (has_long gs); cbv iota; rewrite fold_edge; ring.
Qed.

(* the factor by which the weight of an operator on bond b changes from gs to gh *)
Definition rstep (gs gh : ising) (b : nat) : Q :=
  let ne := length (i_edges gs) in
  let nv := i_nvars gs in
  if Nat.ltb b ne then edge_ratio 0 (i_edges gh) (i_edges gs) b
  else if Nat.ltb b (ne + nv) then i_gamma gh / i_gamma gs
  else i_h gh / i_h gs.

Lemma rel'_nil gs gh : rel' gs gh [] == 1.
Proof.
  unfold rel'. cbv zeta. rewrite edge_prod_nil, !count_range_nil.
  change (Z.of_nat 0) with 0%Z. unfold qpowz. cbn [Qpower].
  destruct (has_long gs); ring.
Qed.

Lemma rel'_none gs gh sl : rel' gs gh (None :: sl) = rel' gs gh sl.
Proof. unfold rel'. cbv zeta. rewrite edge_prod_none. reflexivity. Qed.

Lemma rel'_some gs gh o sl :
  (o_bond o < ising_nbonds gs)%nat ->
  rel' gs gh (Some o :: sl) == rstep gs gh (o_bond o) * rel' gs gh sl.
Proof.
  unfold ising_nbonds, rel', rstep. cbv zeta. intros Hb.
  rewrite edge_prod_some.
  destruct (Nat.ltb_spec (o_bond o) (length (i_edges gs))) as [H1|H1].
  - rewrite !(count_range_out o) by lia. ring.
  - rewrite edge_ratio_out by lia.
    destruct (Nat.ltb_spec (o_bond o) (length (i_edges gs) + i_nvars gs)) as [H2|H2].
    + rewrite (count_range_in o sl (length (i_edges gs))) by lia.
      rewrite (count_range_out o sl (length (i_edges gs) + i_nvars gs)) by lia.
      rewrite qpowz_S. ring.
    + rewrite (count_range_out o sl (length (i_edges gs))) by lia.
      destruct (has_long gs); [|lia].
      rewrite (count_range_in o sl (length (i_edges gs) + i_nvars gs)) by lia.
      rewrite qpowz_S. ring.
Qed.

(* ------------------------------------------------------------------ *)
(* Per-operator weight ratios.                                          *)

Lemma two_site_ratio ins outs j j' :
  0 < j * j' -> 0 < two_site ins outs j ->
  two_site ins outs j' == j' / j * two_site ins outs j.
Proof.
  intros Hjj.
  destruct ins as [|a [|b [|a3 ar]]]; destruct outs as [|c [|d [|c3 cr]]]; cbn [two_site];
    try (intros; lra).
  destruct (Bool.eqb a c && Bool.eqb b d); [|intros; lra].
  assert (Hnz : ~ j == 0) by (intros E; rewrite E in Hjj; lra).
  destruct (Bool.eqb a b); intros Hpos;
    destruct (Qabs'_cases j) as [[Hj E]|[Hj E]]; rewrite E in *;
    destruct (Qabs'_cases j') as [[Hj' E']|[Hj' E']]; rewrite E';
    try (exfalso; nra); field; exact Hnz.
Qed.

Lemma longitudinal_ratio ins outs h h' :
  0 < h * h' -> 0 < longitudinal_w ins outs h ->
  longitudinal_w ins outs h' == h' / h * longitudinal_w ins outs h.
Proof.
  intros Hhh.
  destruct ins as [|a [|a2 ar]]; destruct outs as [|b [|b2 br]]; cbn [longitudinal_w];
    try (intros; lra).
  assert (Hnz : ~ h == 0) by (intros E; rewrite E in Hhh; lra).
  destruct a, b; cbn [Bool.eqb]; intros Hpos;
    destruct (Qabs'_cases h) as [[Hh E]|[Hh E]]; rewrite E in *;
    destruct (Qabs'_cases h') as [[Hh' E']|[Hh' E']]; rewrite E';
    try (exfalso; nra); field; exact Hnz.
Qed.

Lemma op_legal_facts H o : op_legal H o = true ->
  (o_bond o < h_nbonds H)%nat /\ 0 < op_weight H o.
Proof.
  unfold op_legal. intros HL.
  repeat (apply andb_prop in HL; let H' := fresh "HL" in destruct HL as [HL H']).
  split; [now apply Nat.ltb_lt|now apply qposb_true].
Qed.

Lemma op_ratio gs gh o :
  compatible gs gh -> op_legal (ising_ham gs) o = true ->
  op_weight (ising_ham gh) o == rstep gs gh (o_bond o) * op_weight (ising_ham gs) o.
Proof.
  intros (Hnv & Hl & Hf & Hg & Hg' & Hh) HL.
  apply op_legal_facts in HL. destruct HL as [Hb Hpos].
  pose proof (Forall2_same_length _ _ _ Hf) as Hlen.
  revert Hb Hpos. unfold op_weight, rstep. cbn [ising_ham h_nbonds h_weight].
  unfold ising_nbonds, ising_weight. cbv zeta. rewrite <- Hlen, <- Hnv.
  set (b := o_bond o).
  destruct (Nat.ltb_spec b (length (i_edges gs))) as [H1|H1]; intros Hb Hpos.
  - destruct (nth_error (i_edges gs) b) as [[[x y] j]|] eqn:E; [|lra].
    destruct (Forall2_nth_error _ _ _ Hf _ _ E) as [[[x' y'] j'] [E' Hjj]]. cbn [snd] in Hjj.
    rewrite E'.
    pose proof (edge_ratio_nth b _ _ 0%nat _ _ _ _ _ _ E' E) as R. cbn [Nat.add] in R.
    rewrite R. apply two_site_ratio; assumption.
  - destruct (Nat.ltb_spec b (length (i_edges gs) + i_nvars gs)) as [H2|H2].
    + unfold transverse_w. field. lra.
    + destruct (has_long gs) eqn:EL; [|lia].
      apply longitudinal_ratio; auto.
Qed.

(* ------------------------------------------------------------------ *)
(* Theorem 1.                                                           *)

Lemma rel'_weight_ratio gs gh sl :
  compatible gs gh -> all_legal (ising_ham gs) sl = true ->
  rel' gs gh sl * weight_product (ising_ham gs) sl == weight_product (ising_ham gh) sl.
Proof.
  intros Hc. induction sl as [|[o|] sl IH]; intros HL.
  - rewrite rel'_nil. cbn [weight_product fold_right]. ring.
  - cbn [all_legal forallb] in HL. apply andb_prop in HL. destruct HL as [Ho HL].
    specialize (IH HL).
    rewrite !weight_product_some, rel'_some by (apply (op_legal_facts _ _ Ho)).
    rewrite (op_ratio gs gh o Hc Ho), <- IH. ring.
  - cbn [all_legal forallb] in HL. rewrite rel'_none, !weight_product_none. auto.
Qed.

Theorem relative_weight_is_weight_ratio (self h : replica) :
  compatible (rp_ham self) (rp_ham h) ->
  all_legal (ising_ham (rp_ham self)) (rp_slots self) = true ->
  relative_weight self h * weight_product (ising_ham (rp_ham self)) (rp_slots self)
  == weight_product (ising_ham (rp_ham h)) (rp_slots self).
Proof.
  intros Hc HL. rewrite relative_weight_rel, rel_rel'. now apply rel'_weight_ratio.
Qed.

(* ------------------------------------------------------------------ *)
(* Equal Hamiltonians (ham_eq = true): the two models assign equal weights. *)

Lemma Qabs'_compat j j' : j == j' -> Qabs' j == Qabs' j'.
Proof.
  intros E. destruct (Qabs'_cases j) as [[H ->]|[H ->]];
    destruct (Qabs'_cases j') as [[H' ->]|[H' ->]]; lra.
Qed.

Lemma two_site_compat ins outs j j' : j == j' -> two_site ins outs j == two_site ins outs j'.
Proof.
  intros E. pose proof (Qabs'_compat _ _ E) as EA.
  destruct ins as [|a [|b [|a3 ar]]]; destruct outs as [|c [|d [|c3 cr]]]; cbn [two_site];
    try reflexivity.
  destruct (Bool.eqb a c && Bool.eqb b d); [|reflexivity].
  destruct (Bool.eqb a b); rewrite EA, E; reflexivity.
Qed.

Lemma longitudinal_compat ins outs h h' : h == h' -> longitudinal_w ins outs h == longitudinal_w ins outs h'.
Proof.
  intros E. pose proof (Qabs'_compat _ _ E) as EA.
  destruct ins as [|a [|a2 ar]]; destruct outs as [|b [|b2 br]]; cbn [longitudinal_w];
    try reflexivity.
  destruct (Bool.eqb a b); [destruct a|]; rewrite EA, ?E; reflexivity.
Qed.

Lemma edges_eqb_length ea : forall eb, edges_eqb ea eb = true -> length ea = length eb.
Proof.
  unfold edges_eqb.
  induction ea as [|x ea IH]; intros [|y eb] H; cbn [list_beq] in H; try discriminate; [reflexivity|].
  apply andb_prop in H. destruct H as [_ H]. cbn [length]. f_equal. now apply IH.
Qed.

Lemma edges_eqb_nth ea : forall eb k x y j, edges_eqb ea eb = true ->
  nth_error ea k = Some (x, y, j) ->
  exists x' y' j', nth_error eb k = Some (x', y', j') /\ j == j'.
Proof.
  unfold edges_eqb.
  induction ea as [|[[x0 y0] j0] ea IH]; intros [|[[x1 y1] j1] eb] k x y j H E;
    cbn [list_beq] in H; try discriminate.
  - destruct k; discriminate.
  - apply andb_prop in H. destruct H as [H0 H].
    destruct k as [|k]; cbn [nth_error] in *.
    + inversion E; subst. exists x1, y1, j1. split; [reflexivity|].
      apply andb_prop in H0. destruct H0 as [_ H0]. now apply Qeq_bool_iff.
    + eapply IH; eauto.
Qed.

Lemma ising_weight_ham_eq ga gb b ins outs :
  i_nvars ga = i_nvars gb ->
  edges_eqb (i_edges ga) (i_edges gb) = true ->
  i_gamma ga == i_gamma gb -> i_h ga == i_h gb ->
  ising_weight ga b ins outs == ising_weight gb b ins outs.
Proof.
  intros Hnv He Hg Hh. unfold ising_weight. cbv zeta.
  rewrite <- (edges_eqb_length _ _ He), <- Hnv.
  destruct (Nat.ltb_spec b (length (i_edges ga))) as [H1|H1].
  - destruct (nth_error (i_edges ga) b) as [[[x y] j]|] eqn:E.
    + destruct (edges_eqb_nth _ _ _ _ _ _ He E) as (x' & y' & j' & E' & Hj).
      rewrite E'. now apply two_site_compat.
    + apply nth_error_None in E. lia.
  - destruct (Nat.ltb b (length (i_edges ga) + i_nvars ga)).
    + unfold transverse_w. exact Hg.
    + now apply longitudinal_compat.
Qed.

Lemma weight_product_ham_eq (a b : replica) sl :
  i_nvars (rp_ham a) = i_nvars (rp_ham b) -> ham_eq a b = true ->
  weight_product (ising_ham (rp_ham a)) sl == weight_product (ising_ham (rp_ham b)) sl.
Proof.
  intros Hnv He. unfold ham_eq in He.
  apply andb_prop in He. destruct He as [He Hh]. apply andb_prop in He. destruct He as [He Hg].
  apply Qeq_bool_iff in Hg. apply Qeq_bool_iff in Hh.
  induction sl as [|[o|] sl IH].
  - reflexivity.
  - rewrite !weight_product_some, IH. unfold op_weight. cbn [ising_ham h_weight].
    rewrite (ising_weight_ham_eq _ _ _ _ _ Hnv He Hg Hh). reflexivity.
  - rewrite !weight_product_none. exact IH.
Qed.

(* ------------------------------------------------------------------ *)
(* Theorem 2.                                                           *)

Lemma swap_algebra (bf ra rb pa_na pa_nb pb_na pb_nb fa fb fL A B A' B' : Q) :
  0 < pa_na -> 0 < pb_nb -> 0 < fL ->
  bf == (pa_nb * pb_na) / (pa_na * pb_nb) ->
  ra * A == A' -> rb * B == B' ->
  bf * (ra * rb) * ((pa_na * fa / fL * A) * (pb_nb * fb / fL * B))
  == (pa_nb * fb / fL * B') * (pb_na * fa / fL * A').
Proof.
  intros H1 H2 H3 -> <- <-. field. repeat split; lra.
Qed.

Theorem p_swap_is_weight_ratio (a b : replica) :
  compatible (rp_ham a) (rp_ham b) ->
  all_legal (ising_ham (rp_ham a)) (rp_slots a) = true ->
  all_legal (ising_ham (rp_ham b)) (rp_slots b) = true ->
  length (rp_slots a) = length (rp_slots b) ->
  0 < rp_beta a -> 0 < rp_beta b ->
  p_swap a b
  * (sse_weight (ising_ham (rp_ham a)) (rp_beta a) (rp_slots a)
     * sse_weight (ising_ham (rp_ham b)) (rp_beta b) (rp_slots b))
  == sse_weight (ising_ham (rp_ham a)) (rp_beta a) (rp_slots b)
     * sse_weight (ising_ham (rp_ham b)) (rp_beta b) (rp_slots a).
Proof.
  intros Hc HLa HLb Hlen Hba Hbb.
  unfold p_swap, sse_weight. cbv zeta. rewrite <- Hlen.
  pose proof (beta_factor (rp_beta a) (rp_beta b) (count_ops (rp_slots a)) (count_ops (rp_slots b)) Hba Hbb) as BF.
  pose proof (qpow_pos (rp_beta a) (count_ops (rp_slots a)) Hba) as P1.
  pose proof (qpow_pos (rp_beta b) (count_ops (rp_slots b)) Hbb) as P2.
  pose proof (qfact_pos (length (rp_slots a))) as P3.
  destruct (ham_eq a b) eqn:HE.
  - assert (Hnv : i_nvars (rp_ham a) = i_nvars (rp_ham b)) by apply Hc.
    replace 1 with (1 * 1) at 1 by reflexivity.
    apply swap_algebra; try assumption.
    + rewrite (weight_product_ham_eq a b (rp_slots a) Hnv HE). ring.
    + rewrite (weight_product_ham_eq a b (rp_slots b) Hnv HE). ring.
  - apply swap_algebra; try assumption.
    + now apply relative_weight_is_weight_ratio.
    + apply relative_weight_is_weight_ratio; [now apply compatible_sym|assumption].
Qed.

(* The ham_eq = true branch alone needs much less: no sign conditions and no legality. *)
Theorem p_swap_is_weight_ratio_equal_hams (a b : replica) :
  ham_eq a b = true ->
  i_nvars (rp_ham a) = i_nvars (rp_ham b) ->
  length (rp_slots a) = length (rp_slots b) ->
  0 < rp_beta a -> 0 < rp_beta b ->
  p_swap a b
  * (sse_weight (ising_ham (rp_ham a)) (rp_beta a) (rp_slots a)
     * sse_weight (ising_ham (rp_ham b)) (rp_beta b) (rp_slots b))
  == sse_weight (ising_ham (rp_ham a)) (rp_beta a) (rp_slots b)
     * sse_weight (ising_ham (rp_ham b)) (rp_beta b) (rp_slots a).
Proof.
  intros HE Hnv Hlen Hba Hbb.
  unfold p_swap, sse_weight. cbv zeta. rewrite <- Hlen, HE.
  pose proof (beta_factor (rp_beta a) (rp_beta b) (count_ops (rp_slots a)) (count_ops (rp_slots b)) Hba Hbb) as BF.
  pose proof (qpow_pos (rp_beta a) (count_ops (rp_slots a)) Hba) as P1.
  pose proof (qpow_pos (rp_beta b) (count_ops (rp_slots b)) Hbb) as P2.
  pose proof (qfact_pos (length (rp_slots a))) as P3.
  replace 1 with (1 * 1) at 1 by reflexivity.
  apply swap_algebra; try assumption.
  - rewrite (weight_product_ham_eq a b (rp_slots a) Hnv HE). ring.
  - rewrite (weight_product_ham_eq a b (rp_slots b) Hnv HE). ring.
Qed.

(* ------------------------------------------------------------------ *)
(* One boolean check implying every hypothesis of Theorem 2.            *)

Definition swap_hyps (a b : replica) : bool :=
  compatb (rp_ham a) (rp_ham b)
  && all_legal (ising_ham (rp_ham a)) (rp_slots a)
  && all_legal (ising_ham (rp_ham b)) (rp_slots b)
  && Nat.eqb (length (rp_slots a)) (length (rp_slots b))
  && qposb (rp_beta a)
  && qposb (rp_beta b).

Theorem p_swap_is_weight_ratio_checked (a b : replica) :
  swap_hyps a b = true ->
  p_swap a b
  * (sse_weight (ising_ham (rp_ham a)) (rp_beta a) (rp_slots a)
     * sse_weight (ising_ham (rp_ham b)) (rp_beta b) (rp_slots b))
  == sse_weight (ising_ham (rp_ham a)) (rp_beta a) (rp_slots b)
     * sse_weight (ising_ham (rp_ham b)) (rp_beta b) (rp_slots a).
Proof.
  unfold swap_hyps. intros H.
  apply andb_prop in H. destruct H as [H Hbb].
  apply andb_prop in H. destruct H as [H Hba].
  apply andb_prop in H. destruct H as [H Hlen].
  apply andb_prop in H. destruct H as [H HLb].
  apply andb_prop in H. destruct H as [Hc HLa].
  apply p_swap_is_weight_ratio.
  - now apply compatb_sound.
  - exact HLa.
  - exact HLb.
  - now apply Nat.eqb_eq.
  - now apply qposb_true.
  - now apply qposb_true.
Qed.

(* ------------------------------------------------------------------ *)
(* A concrete instance: 3 variables, 2 edges, longitudinal field present.
   Bonds: 0,1 edges; 2,3,4 transverse; 5,6,7 longitudinal. *)

Definition ex_ga : ising := mkIsing [(0%nat, 1%nat, - (1)); (1%nat, 2%nat, 2)] 1 (1 # 2) 3.
Definition ex_gb : ising := mkIsing [(0%nat, 1%nat, - (2)); (1%nat, 2%nat, 1)] (3 # 2) 1 3.

Definition ex_sa : slots :=
  [ Some (mkOp [0%nat; 1%nat] 0 [true; true] [true; true] false);
    None;
    Some (mkOp [1%nat] 3 [true] [false] true);
    Some (mkOp [0%nat] 5 [true] [true] false) ].

Definition ex_sb : slots :=
  [ None;
    Some (mkOp [1%nat; 2%nat] 1 [true; false] [true; false] false);
    Some (mkOp [0%nat] 2 [false] [false] true);
    None ].

Definition ex_a : replica := mkReplica ex_ga 1 4 [true; true; false] ex_sa.
Definition ex_b : replica := mkReplica ex_gb (1 # 2) 4 [false; true; false] ex_sb.

Example swap_example_hyps : swap_hyps ex_a ex_b = true.
Proof. vm_compute. reflexivity. Qed.

Example swap_example_distinct_hams : ham_eq ex_a ex_b = false.
Proof. vm_compute. reflexivity. Qed.

Example swap_example_nonempty :
  count_ops (rp_slots ex_a) = 3%nat /\ count_ops (rp_slots ex_b) = 2%nat.
Proof. vm_compute. split; reflexivity. Qed.

Example swap_example_compatible :
  compatible (rp_ham ex_a) (rp_ham ex_b)
  /\ all_legal (ising_ham (rp_ham ex_a)) (rp_slots ex_a) = true
  /\ all_legal (ising_ham (rp_ham ex_b)) (rp_slots ex_b) = true
  /\ length (rp_slots ex_a) = length (rp_slots ex_b)
  /\ 0 < rp_beta ex_a /\ 0 < rp_beta ex_b.
Proof.
  split; [apply compatb_sound; vm_compute; reflexivity|].
  repeat split; vm_compute; reflexivity.
Qed.

Example swap_example_ratio :
  p_swap ex_a ex_b
  * (sse_weight (ising_ham (rp_ham ex_a)) (rp_beta ex_a) (rp_slots ex_a)
     * sse_weight (ising_ham (rp_ham ex_b)) (rp_beta ex_b) (rp_slots ex_b))
  == sse_weight (ising_ham (rp_ham ex_a)) (rp_beta ex_a) (rp_slots ex_b)
     * sse_weight (ising_ham (rp_ham ex_b)) (rp_beta ex_b) (rp_slots ex_a).
Proof. apply p_swap_is_weight_ratio_checked. exact swap_example_hyps. Qed.

(* the same equation checked by direct evaluation, independently of the theorem *)
Example swap_example_ratio_computed :
  Qeq_bool
    (p_swap ex_a ex_b
     * (sse_weight (ising_ham (rp_ham ex_a)) (rp_beta ex_a) (rp_slots ex_a)
        * sse_weight (ising_ham (rp_ham ex_b)) (rp_beta ex_b) (rp_slots ex_b)))
    (sse_weight (ising_ham (rp_ham ex_a)) (rp_beta ex_a) (rp_slots ex_b)
     * sse_weight (ising_ham (rp_ham ex_b)) (rp_beta ex_b) (rp_slots ex_a)) = true.
Proof. vm_compute. reflexivity. Qed.

Print Assumptions relative_weight_is_weight_ratio.
Print Assumptions p_swap_is_weight_ratio.
Print Assumptions p_swap_is_weight_ratio_equal_hams.
Print Assumptions p_swap_is_weight_ratio_checked.
Print Assumptions swap_example_hyps.
Print Assumptions swap_example_ratio.
