(* The whole default pipeline of a time step — diagonal update, cluster update, free-spin refresh —
   as a kernel on complete configurations, and its stationarity for the SSE configuration weight
   (C01, h = 0; C04 for symmetric interaction sets).

   The cluster update is the kernel "one fair bit per cluster of the decomposition, apply the flips";
   the refresh is, per variable without operators, "one fair bit, toggle the p = 0 spin".  Both are
   instances of Proofs/GroupKernel.v.  The cluster part relies on the certified-validator facts of
   C09 (the labelling of the decomposition is accepted by links_ok / sides_ok); they are hypotheses on
   the configuration space here, evaluated on concrete spaces by computation. *)
From Coq Require Import List QArith ZArith NArith Bool Arith Lia Lqa.
From QmcV Require Import Model.Prog Model.Sse Model.Nav Model.Ham Model.Diagonal Model.Cluster Model.ClusterValid Model.Steps
     Proofs.ProgLemmas Proofs.DiagonalProofs Proofs.SseWeight Proofs.WorldLine Proofs.ClusterProofs Proofs.ClusterFlipProofs
     Proofs.ThermalProofs Proofs.StepProofs Proofs.Expect Proofs.SweepStationary Proofs.GroupKernel.
Import ListNotations.
Open Scope Q_scope.

(* ------------------------------------------------------------------ *)
(* draws with different continuations                                  *)
Lemma expect_draw_flips_ext {A B} (k1 : list bool -> prog A) (k2 : list bool -> prog B) (f : A -> Q) (g : B -> Q) :
  forall probs acc, (forall fl, expect (k1 fl) f == expect (k2 fl) g) ->
  expect (draw_flips probs acc k1) f == expect (draw_flips probs acc k2) g.
Proof.
  induction probs as [|q r IH]; intros acc Hk; cbn [draw_flips]; [apply Hk|].
  unfold expect. cbn [denote]. rewrite !emass_app, !emass_dscale.
  change (emass ?h (denote ?m)) with (expect m h). rewrite (IH (true :: acc) Hk), (IH (false :: acc) Hk). reflexivity.
Qed.


(* ------------------------------------------------------------------ *)
(* the cluster update as a kernel on configurations                    *)
Definition cl_k (c : cfg) : nat :=
  if Nat.eqb (count_ops (snd c)) 0 then 0%nat
  else match decompose (snd c) with Some (_, ncl) => ncl | None => 0%nat end.

Definition cl_act (c : cfg) (fl : list bool) : cfg :=
  if Nat.eqb (count_ops (snd c)) 0 then c
  else match decompose (snd c) with
       | Some (b, _) => let '(sl', st') := apply_flips (snd c) (fst c) b fl in (st', sl')
       | None => c
       end.

(* the model's cluster update (symmetric case), seen on configurations; a model failure (None) keeps c *)
Definition cluster_cfg (c : cfg) : prog cfg :=
  bind (cluster_update (1 # 2) None (snd c) (fst c))
       (fun r => Ret (match r with Some (sl', st', _) => (st', sl') | None => c end)).

Lemma cluster_cfg_is_gkernel c (f : cfg -> Q) :
  (Nat.eqb (count_ops (snd c)) 0 = false -> decompose (snd c) <> None) ->
  expect (cluster_cfg c) f == expect (gkernel cl_act cl_k c) f.
Proof.
  intros Hd. unfold cluster_cfg, cluster_update, gkernel, cl_k.
  destruct (Nat.eqb (count_ops (snd c)) 0) eqn:E0.
  - cbn [repeat draw_flips bind]. rewrite !expect_ret. unfold cl_act. rewrite E0. destruct c. reflexivity.
  - destruct (decompose (snd c)) as [[b ncl]|] eqn:Ed; [|exfalso; now apply Hd].
    rewrite expect_bind.
    apply (expect_draw_flips_ext _ _ (fun a => expect (Ret (match a with Some (sl', st', _) => (st', sl') | None => c end)) f) f).
    intros fl. unfold cl_act. rewrite E0, Ed.
    destruct (apply_flips (snd c) (fst c) b fl) as [sl' st']. rewrite !expect_ret. reflexivity.
Qed.

(* what the cluster update needs of a configuration space *)
Record cluster_ready (H : ham) (xs : list cfg) : Prop := {
  cr_valid : forall st sl, In (st, sl) xs -> Nat.eqb (count_ops sl) 0 = false ->
     exists b ncl, decompose sl = Some (b, ncl)
       /\ links_ok sl b = true /\ sides_ok sl b = true
       /\ vars_in_range (length st) sl = true /\ wf st sl = true
       /\ (forall p o, get_op sl p = Some o -> if is_edge o then edge_free H o else flip_sym H o);
  cr_closed : forall c fl, In c xs -> length fl = cl_k c -> In (cl_act c fl) xs
}.

Section ClusterKernel.
  Variable H : ham.
  Variable beta : Q.
  Variable xs : list cfg.
  Hypothesis Hnd : NoDup xs.
  Hypothesis Hcr : cluster_ready H xs.

  Lemma cl_k_act c fl : In c xs -> length fl = cl_k c -> cl_k (cl_act c fl) = cl_k c.
  Proof.
    intros Hc _. destruct c as [st sl]. unfold cl_k, cl_act. cbn [fst snd].
    destruct (Nat.eqb (count_ops sl) 0) eqn:E0; cbn [fst snd]; [now rewrite E0|].
    destruct (cr_valid H xs Hcr st sl Hc E0) as (b & ncl & Ed & _). rewrite Ed.
    destruct (apply_flips sl st b fl) as [sl' st'] eqn:Ea. cbn [snd].
    assert (E1 : sl' = fst (apply_flips sl st b fl)) by now rewrite Ea.
    rewrite E1, apply_flips_count, E0, redecompose_same, Ed. reflexivity.
  Qed.

  Lemma cl_act_invol c fl : In c xs -> length fl = cl_k c -> cl_act (cl_act c fl) fl = c.
  Proof.
    intros Hc _. destruct c as [st sl]. unfold cl_act. cbn [fst snd].
    destruct (Nat.eqb (count_ops sl) 0) eqn:E0; cbn [fst snd]; [now rewrite E0|].
    destruct (cr_valid H xs Hcr st sl Hc E0) as (b & ncl & Ed & Hl & Hs & Hv & Hwf & _). rewrite Ed.
    pose proof (cluster_flip_involutive sl st b fl Hv Hl Hwf) as Hinv.
    destruct (apply_flips sl st b fl) as [sl' st'] eqn:Ea. cbn [fst snd].
    assert (E1 : sl' = fst (apply_flips sl st b fl)) by now rewrite Ea.
    rewrite E1, apply_flips_count, E0, redecompose_same, Ed, <- E1, Hinv. reflexivity.
  Qed.

  Lemma cl_act_weight c fl : In c xs -> length fl = cl_k c -> W H beta (cl_act c fl) == W H beta c.
  Proof.
    intros Hc _. destruct c as [st sl]. unfold cl_act, W. cbn [fst snd].
    destruct (Nat.eqb (count_ops sl) 0) eqn:E0; cbn [fst snd]; [reflexivity|].
    destruct (cr_valid H xs Hcr st sl Hc E0) as (b & ncl & Ed & Hl & Hs & Hv & Hwf & Hsym). rewrite Ed.
    destruct (apply_flips sl st b fl) as [sl' st'] eqn:Ea. cbn [snd].
    assert (E1 : sl' = fst (apply_flips sl st b fl)) by now rewrite Ea.
    rewrite E1. apply cluster_flip_sse_weight; [|exact Hs].
    intros p o Ho. specialize (Hsym p o Ho). destruct (is_edge o); [exact Hsym|now left].
  Qed.

  Theorem cluster_kernel_stationary : wstat xs (W H beta) cluster_cfg.
  Proof.
    apply (wstat_ext_in xs (W H beta) (gkernel cl_act cl_k)).
    - intros [st sl] f Hc. symmetry. apply cluster_cfg_is_gkernel. cbn [snd fst]. intros E0.
      destruct (cr_valid H xs Hcr st sl Hc E0) as (b & ncl & Ed & _). congruence.
    - apply (gkernel_stationary cfg_eqb cfg_eqb_ok cl_act cl_k (W H beta) xs Hnd).
      + apply (cr_closed H xs Hcr).
      + apply cl_k_act.
      + apply cl_act_invol.
      + apply cl_act_weight.
  Qed.
End ClusterKernel.

(* ------------------------------------------------------------------ *)
(* the free-spin refresh as a composition of one-bit kernels           *)
Definition toggle_var (st : state) (v : nat) : state := set_nth st v (negb (nth v st false)).

Definition rf_k (v : nat) (c : cfg) : nat := if var_has_ops (snd c) v then 0%nat else 1%nat.
Definition rf_act (v : nat) (c : cfg) (fl : list bool) : cfg :=
  match fl with
  | [true] => (toggle_var (fst c) v, snd c)
  | _ => c
  end.

Fixpoint refresh_sweep (v k : nat) (c : cfg) : prog cfg :=
  match k with
  | O => Ret c
  | S k' => bind (gkernel (rf_act v) (rf_k v) c) (refresh_sweep (S v) k')
  end.

Definition refresh_cfg (c : cfg) : prog cfg :=
  bind (refresh (snd c) (fst c)) (fun st' => Ret (st', snd c)).

Lemma toggle_toggle st v : toggle_var (toggle_var st v) v = st.
Proof.
  unfold toggle_var. rewrite nth_set_nth, Nat.eqb_refl. cbn [andb].
  destruct (Nat.ltb v (length st)) eqn:E.
  - rewrite negb_involutive, set_nth_set_nth. apply set_nth_same.
  - (* v beyond the state: set_nth is the identity *)
    apply Nat.ltb_ge in E.
    assert (Hid : forall (l : state) x, (length l <= v)%nat -> set_nth l v x = l).
    { clear. intros l. revert v. induction l as [|h t IH]; intros v x Hl; cbn [set_nth]; [reflexivity|].
      destruct v; cbn in Hl; [lia|]. f_equal. apply IH. lia. }
    rewrite !Hid; auto. rewrite Hid; auto.
Qed.

Lemma set_nth_bit_cases st v (f : cfg -> Q) sl :
  (1 # 2) * f (set_nth st v true, sl) + (1 # 2) * f (set_nth st v false, sl)
  == (1 # 2) * f (toggle_var st v, sl) + (1 # 2) * f (st, sl).
Proof.
  unfold toggle_var. destruct (nth v st false) eqn:E; cbn [negb].
  - assert (Hs : set_nth st v true = st) by (rewrite <- E; apply set_nth_same). rewrite Hs. apply Qplus_comm.
  - assert (Hs : set_nth st v false = st) by (rewrite <- E; apply set_nth_same). rewrite Hs. reflexivity.
Qed.

Lemma half_mix (a b c d : Q) :
  (1 # 2) * a + (1 # 2) * b == (1 # 2) * c + (1 # 2) * d ->
  (1 # 2) * a + (1 - (1 # 2)) * b == (1 # 2) * (1 * c + 0) + (1 - (1 # 2)) * (1 * d + 0).
Proof. intros E. lra. Qed.

Lemma refresh_is_sweep sl (f : cfg -> Q) : forall k v st,
  expect (refresh_from v k sl st) (fun st' => f (st', sl)) == expect (refresh_sweep v k (st, sl)) f.
Proof.
  induction k as [|k IH]; intros v st; cbn [refresh_from refresh_sweep].
  - rewrite !expect_ret. reflexivity.
  - rewrite expect_bind. unfold gkernel, rf_k. cbn [snd].
    destruct (var_has_ops sl v) eqn:E.
    + cbn [repeat draw_flips rev app]. rewrite expect_ret. unfold rf_act. apply IH.
    + cbn [repeat draw_flips rev app]. unfold expect at 1 2. cbn [denote].
      rewrite !emass_app, !emass_dscale, !emass_cons, !emass_nil.
      change (emass ?h (denote ?m)) with (expect m h).
      rewrite !IH. unfold rf_act. cbn [fst snd]. rewrite qclip_half.
      pose proof (set_nth_bit_cases st v (fun c => expect (refresh_sweep (S v) k c) f) sl) as Hc.
      cbv beta in Hc. apply half_mix. exact Hc.
Qed.

Lemma refresh_cfg_is_sweep c (f : cfg -> Q) :
  expect (refresh_cfg c) f == expect (refresh_sweep 0 (length (fst c)) c) f.
Proof.
  destruct c as [st sl]. unfold refresh_cfg, refresh. cbn [fst snd]. rewrite expect_bind.
  rewrite <- (refresh_is_sweep sl f (length st) 0 st). apply expect_ext. intros st'. apply expect_ret.
Qed.

Section RefreshKernel.
  Variable H : ham.
  Variable beta : Q.
  Variable xs : list cfg.
  Hypothesis Hnd : NoDup xs.
  (* the space is closed under toggling a spin that carries no operator *)
  Hypothesis Hfree : forall st sl v, In (st, sl) xs -> var_has_ops sl v = false -> In (toggle_var st v, sl) xs.

  Lemma rf_len1 (fl : list bool) : length fl = 1%nat -> fl = [true] \/ fl = [false].
  Proof. destruct fl as [|[|] [|? ?]]; cbn; intros E; try discriminate; auto. Qed.

  Theorem refresh_var_stationary v : wstat xs (W H beta) (gkernel (rf_act v) (rf_k v)).
  Proof.
    apply (gkernel_stationary cfg_eqb cfg_eqb_ok (rf_act v) (rf_k v) (W H beta) xs Hnd).
    - intros [st sl] fl Hc Hl. unfold rf_k in Hl. cbn [snd] in Hl.
      destruct (var_has_ops sl v) eqn:E.
      + destruct fl; [exact Hc|discriminate].
      + destruct (rf_len1 fl Hl) as [-> | ->]; unfold rf_act; cbn [fst snd]; [now apply Hfree|exact Hc].
    - intros [st sl] fl _ _. unfold rf_k, rf_act. destruct fl as [|[|] [|? ?]]; reflexivity.
    - intros [st sl] fl Hc Hl. unfold rf_k in Hl. cbn [snd] in Hl.
      destruct (var_has_ops sl v) eqn:E.
      + destruct fl; [reflexivity|discriminate].
      + destruct (rf_len1 fl Hl) as [-> | ->]; unfold rf_act; cbn [fst snd]; [now rewrite toggle_toggle|reflexivity].
    - intros [st sl] fl _ _. unfold rf_act, W. destruct fl as [|[|] [|? ?]]; reflexivity.
  Qed.

  Theorem refresh_sweep_stationary k : forall v, wstat xs (W H beta) (refresh_sweep v k).
  Proof.
    induction k as [|k IH]; intros v; cbn [refresh_sweep]; [apply wstat_ret|].
    apply (wstat_comp xs (W H beta) (gkernel (rf_act v) (rf_k v)) (refresh_sweep (S v) k)); [apply refresh_var_stationary|apply IH].
  Qed.
End RefreshKernel.

(* ------------------------------------------------------------------ *)
(* the whole time step                                                 *)
Definition pipeline_cfg (upd : cfg -> prog cfg) (c : cfg) : prog cfg :=
  bind (upd c) (fun c1 => bind (cluster_cfg c1) refresh_cfg).

(* a configuration space on which all three stages act: consistent legal configurations of one length
   and one number of variables, closed under single-slot changes, cluster flips and free-spin toggles,
   with decompositions accepted by the validators *)
Record tspace_ok (H : ham) (L nv : nat) (xs : list cfg) : Prop := {
  ts_space : space_ok H L xs;
  ts_nvars : forall c, In c xs -> length (fst c) = nv;
  ts_cluster : cluster_ready H xs;
  ts_free : forall st sl v, In (st, sl) xs -> var_has_ops sl v = false -> In (toggle_var st v, sl) xs
}.

Theorem pipeline_stationary H beta L nv xs (upd : cfg -> prog cfg) :
  tspace_ok H L nv xs -> wstat xs (W H beta) upd -> wstat xs (W H beta) (pipeline_cfg upd).
Proof.
  intros Hts Hupd. unfold pipeline_cfg.
  apply (wstat_comp xs (W H beta) upd (fun c1 => bind (cluster_cfg c1) refresh_cfg)); [exact Hupd|].
  apply (wstat_comp xs (W H beta) cluster_cfg refresh_cfg).
  - apply (cluster_kernel_stationary H beta xs (sp_nodup H L xs (ts_space H L nv xs Hts)) (ts_cluster H L nv xs Hts)).
  - apply (wstat_ext_in xs (W H beta) (refresh_sweep 0 nv)).
    + intros c f Hc. rewrite refresh_cfg_is_sweep, (ts_nvars H L nv xs Hts c Hc). reflexivity.
    + apply (refresh_sweep_stationary H beta xs (sp_nodup H L xs (ts_space H L nv xs Hts)) (ts_free H L nv xs Hts)).
Qed.

Theorem metropolis_timestep_stationary H beta L nv xs :
  0 < beta -> (0 < h_nbonds H)%nat -> tspace_ok H L nv xs ->
  wstat xs (W H beta) (pipeline_cfg (update_cfg (met_update H beta))).
Proof.
  intros Hb Hk Hts. apply (pipeline_stationary H beta L nv xs); [exact Hts|].
  apply (metropolis_update_stationary H beta L xs Hb Hk (ts_space H L nv xs Hts)).
Qed.

Theorem heatbath_timestep_stationary H beta L nv xs :
  0 < beta -> tspace_ok H L nv xs ->
  wstat xs (W H beta) (pipeline_cfg (update_cfg (hb_update H (bond_weights H) beta))).
Proof.
  intros Hb Hts. apply (pipeline_stationary H beta L nv xs); [exact Hts|].
  apply (heatbath_update_stationary H beta L xs Hb (ts_space H L nv xs Hts)).
Qed.

(* ------------------------------------------------------------------ *)
(* the tie to the term that is replayed against the implementation: QmcIsingGraph::timestep without a
   longitudinal field is exactly this pipeline *)
Lemma emass_ext_in_w {A} (f g : A -> Q) d :
  (forall p a, In (p, a) d -> p == 0 \/ f a == g a) -> emass f d == emass g d.
Proof.
  induction d as [|[p a] d IH]; intros Hd; [reflexivity|].
  rewrite !emass_cons, IH by (intros; eapply Hd; right; eauto).
  destruct (Hd p a (or_introl eq_refl)) as [Hz|E]; [rewrite Hz; ring|rewrite E; reflexivity].
Qed.

Definition obs_of (f : cfg -> Q) (r : option (slots * state * nat)) : Q :=
  match r with Some (sl', st', _) => f (st', sl') | None => 0 end.

Lemma supp_dscale {A} (P : A -> Prop) q (d : dist A) :
  Forall (fun '(p, a) => p == 0 \/ P a) d -> Forall (fun '(p, a) => p == 0 \/ P a) (dscale q d).
Proof.
  intros Hd. unfold dscale. apply Forall_forall. intros [p a] Hin. apply in_map_iff in Hin.
  destruct Hin as [[p' a'] [E Hin]]. inversion E; subst. rewrite Forall_forall in Hd.
  destruct (Hd (p', a) Hin) as [Hz|HP]; [left; rewrite Hz; ring|now right].
Qed.

Lemma draw_flips_support_gen {A} (k : list bool -> prog A) (P : A -> Prop) : forall probs acc,
  (forall fl, Forall (fun '(p, a) => p == 0 \/ P a) (denote (k fl))) ->
  Forall (fun '(p, a) => p == 0 \/ P a) (denote (draw_flips probs acc k)).
Proof.
  induction probs as [|q r IH]; intros acc Hk; cbn [draw_flips denote]; [apply Hk|].
  apply Forall_app. split; apply supp_dscale; apply IH; exact Hk.
Qed.

Lemma cluster_update_none_only_if prob wfn sl st p :
  In (p, None) (denote (cluster_update prob wfn sl st)) ->
  p == 0 \/ (Nat.eqb (count_ops sl) 0 = false /\ decompose sl = None).
Proof.
  unfold cluster_update. destruct (Nat.eqb (count_ops sl) 0) eqn:E0.
  - intros Hin. apply support_ret in Hin. discriminate.
  - destruct (decompose sl) as [[b ncl]|] eqn:Ed; [|intros _; right; auto].
    intros Hin.
    match type of Hin with In _ (denote (draw_flips ?pr ?ac ?kk)) =>
      assert (HF := draw_flips_support_gen kk (fun a => a <> None) pr ac) end.
    rewrite Forall_forall in HF.
    destruct (HF (fun fl => ltac:(destruct (apply_flips sl st b fl); cbn [denote]; constructor; [right; discriminate|constructor])) (p, None) Hin) as [Hz|Hne];
      [now left|congruence].
Qed.

Theorem ising_timestep_is_pipeline g beta st sl (f : cfg -> Q) :
  has_long g = false -> wf st sl = true ->
  (forall p r, In (p, r) (denote (met_update (ising_ham g) beta (length sl) st sl)) ->
     Nat.eqb (count_ops (fst (fst r))) 0 = false -> decompose (fst (fst r)) <> None) ->
  expect (ising_timestep g false beta (length sl) st sl) (obs_of f)
  == expect (pipeline_cfg (update_cfg (met_update (ising_ham g) beta)) (st, sl)) f.
Proof.
  intros Hh Hwf Hdec. unfold ising_timestep, ising_diag, ising_cluster, pipeline_cfg, update_cfg. rewrite Hh.
  cbn [fst snd]. rewrite !expect_bind. unfold expect at 1 3. apply emass_ext_in. intros p [[sl1 n1] st1] Hin.
  rewrite expect_ret. cbn [fst snd].
  (* the diagonal update hands back the p = 0 state *)
  assert (Hst : st1 = st).
  { unfold met_update in Hin.
    destruct (diagonal_update_wf (ising_ham g) (fun L n st0 o => met_slot (ising_ham g) L n beta st0 o) (length sl) st sl
                (fun L n => met_slot_spec (ising_ham g) L n beta) (le_n _) Hwf p sl1 n1 st1 Hin) as [_ E]. exact E. }
  subst st1. unfold cluster_cfg. cbn [fst snd]. rewrite !expect_bind.
  unfold expect at 1 3. apply emass_ext_in_w. intros q r Hr.
  destruct r as [[[sl2 st2] ncl]|].
  - right. rewrite expect_ret, expect_bind. unfold refresh_cfg. cbn [fst snd]. rewrite expect_bind.
    apply expect_ext. intros st3. rewrite !expect_ret. reflexivity.
  - left. destruct (cluster_update_none_only_if _ _ _ _ _ Hr) as [Hz|[E0 Ed]]; [exact Hz|].
    exfalso. apply (Hdec p (sl1, n1, st) Hin E0 Ed).
Qed.

(* ------------------------------------------------------------------ *)
(* deciding [tspace_ok] for a concrete space by computation            *)
Definition in_cfgs (c : cfg) (xs : list cfg) : bool := existsb (cfg_eqb c) xs.

Lemma in_cfgs_ok c xs : in_cfgs c xs = true -> In c xs.
Proof.
  unfold in_cfgs. intros E. apply existsb_exists in E. destruct E as [x [Hx Ex]].
  apply cfg_eqb_ok in Ex. now subst.
Qed.

Definition cluster_check (xs : list cfg) : bool :=
  forallb (fun c =>
    (if Nat.eqb (count_ops (snd c)) 0 then true
     else match decompose (snd c) with
          | Some (b, _) => links_ok (snd c) b && sides_ok (snd c) b && vars_in_range (length (fst c)) (snd c) && wf (fst c) (snd c)
          | None => false
          end)
    && forallb (fun fl => in_cfgs (cl_act c fl) xs) (all_substates (cl_k c))) xs.

Definition free_check (nv : nat) (xs : list cfg) : bool :=
  forallb (fun c => Nat.eqb (length (fst c)) nv
                    && forallb (fun v => var_has_ops (snd c) v || in_cfgs (toggle_var (fst c) v, snd c) xs) (seq 0 nv)) xs.

Lemma toggle_beyond st v : (length st <= v)%nat -> toggle_var st v = st.
Proof.
  unfold toggle_var. generalize (negb (nth v st false)). revert v.
  induction st as [|h t IH]; intros v x Hl; cbn [set_nth]; [reflexivity|].
  destruct v; cbn in Hl; [lia|]. f_equal. apply IH. lia.
Qed.

Lemma get_op_in (sl : slots) p o : get_op sl p = Some o -> In (Some o) sl.
Proof.
  unfold get_op, g_get. intros E.
  destruct (nth_error sl p) as [[a|]|] eqn:En; try discriminate.
  inversion E; subst. eapply nth_error_In; eauto.
Qed.

Theorem tspace_check_sound H L nv xs :
  space_ok H L xs ->
  (forall o, op_legal H o = true -> if is_edge o then edge_free H o else flip_sym H o) ->
  cluster_check xs = true -> free_check nv xs = true -> tspace_ok H L nv xs.
Proof.
  intros Hsp Hsym Hcc Hfc. unfold cluster_check in Hcc. unfold free_check in Hfc.
  rewrite forallb_forall in Hcc, Hfc. constructor.
  - exact Hsp.
  - intros c Hc. specialize (Hfc c Hc). apply andb_true_iff in Hfc. now apply Nat.eqb_eq.
  - constructor.
    + intros st sl Hc E0. specialize (Hcc (st, sl) Hc). cbn [fst snd] in Hcc. rewrite E0 in Hcc.
      apply andb_true_iff in Hcc. destruct Hcc as [Hv _].
      destruct (decompose sl) as [[b ncl]|]; [|discriminate].
      rewrite !andb_true_iff in Hv. destruct Hv as [[[Hl Hs] Hr] Hw].
      exists b, ncl. repeat split; auto.
      intros p o Ho. apply Hsym.
      destruct (sp_good H L xs Hsp _ Hc) as [Hg _]. unfold good in Hg. cbn [fst snd] in Hg.
      apply andb_true_iff in Hg. destruct Hg as [_ Hlegal]. unfold all_legal in Hlegal. rewrite forallb_forall in Hlegal.
      apply (Hlegal (Some o)). now apply (get_op_in sl p).
    + intros c fl Hc Hl. specialize (Hcc c Hc). apply andb_true_iff in Hcc. destruct Hcc as [_ Hcl].
      rewrite forallb_forall in Hcl. apply in_cfgs_ok. apply Hcl. apply all_substates_complete. exact Hl.
  - intros st sl v Hc Hv. specialize (Hfc (st, sl) Hc). cbn [fst snd] in Hfc.
    apply andb_true_iff in Hfc. destruct Hfc as [Hn Hall]. apply Nat.eqb_eq in Hn.
    destruct (Nat.lt_ge_cases v nv) as [Hlt|Hge].
    + rewrite forallb_forall in Hall. specialize (Hall v (proj2 (in_seq _ _ _) (conj (Nat.le_0_l _) Hlt))).
      rewrite Hv in Hall. cbn [orb] in Hall. now apply in_cfgs_ok.
    + rewrite toggle_beyond by lia. exact Hc.
Qed.

(* the example Hamiltonian: its constant term has a value-independent weight, its bond term is flip-symmetric *)
Lemma ex_ham_sym o : op_legal ex_ham o = true -> if is_edge o then edge_free ex_ham o else flip_sym ex_ham o.
Proof.
  unfold op_legal. rewrite !andb_true_iff. intros [[[[[Hb Hv] Hc] Hi] Ho] _].
  apply Nat.ltb_lt in Hb. apply FastOpsLemmas.nats_eqb_eq in Hv. apply eqb_prop in Hc.
  apply Nat.eqb_eq in Hi. apply Nat.eqb_eq in Ho.
  destruct o as [vs b i o c]. cbn [o_vars o_bond o_in o_out o_const] in *.
  unfold is_edge, sk_is_edge, skel_of. cbn [sk_const sk_vars o_vars o_const o_bond].
  destruct b as [|[|b]]; [| |cbn in Hb; lia].
  - (* the bond term *)
    cbn in Hv, Hc. subst vs c. cbn [andb]. unfold flip_sym, op_weight. cbn [o_bond o_in o_out ex_ham h_weight].
    cbn in Hi, Ho.
    destruct i as [|i0 [|i1 [|? ?]]]; try discriminate. destruct o as [|o0 [|o1 [|? ?]]]; try discriminate.
    destruct i0, i1, o0, o1; reflexivity.
  - cbn in Hv, Hc. subst vs c. cbn [length Nat.eqb andb]. unfold edge_free, op_weight. intros i' o'. cbn [o_bond ex_ham h_weight]. reflexivity.
Qed.

Theorem ex_space_ok : tspace_ok ex_ham 2 2 (canon ex_ham (all_substates 2) 2).
Proof.
  apply tspace_check_sound.
  - apply canon_space_ok.
  - exact ex_ham_sym.
  - vm_compute. reflexivity.
  - vm_compute. reflexivity.
Qed.

(* ------------------------------------------------------------------ *)
(* the WEIGHTED cluster update (longitudinal field): cluster a is flipped with probability w_a / 2 where w_a is
   the product of the flip ratios (0 or 1) of the operators lying inside the cluster *)
Definition clw_pr (wfn : op -> Q) (c : cfg) : list Q :=
  if Nat.eqb (count_ops (snd c)) 0 then []
  else match decompose (snd c) with
       | Some (b, ncl) => map (fun w => w * (1 # 2)) (cluster_weights (snd c) b ncl wfn)
       | None => []
       end.

Definition cluster_cfg_w (wfn : op -> Q) (c : cfg) : prog cfg :=
  bind (cluster_update (1 # 2) (Some wfn) (snd c) (fst c))
       (fun r => Ret (match r with Some (sl', st', _) => (st', sl') | None => c end)).

Lemma cluster_cfg_w_is_gkernel wfn c (f : cfg -> Q) :
  (Nat.eqb (count_ops (snd c)) 0 = false -> decompose (snd c) <> None) ->
  expect (cluster_cfg_w wfn c) f == expect (gkernel_w cl_act (clw_pr wfn) c) f.
Proof.
  intros Hd. unfold cluster_cfg_w, cluster_update, gkernel_w, clw_pr.
  destruct (Nat.eqb (count_ops (snd c)) 0) eqn:E0.
  - cbn [draw_flips bind]. rewrite !expect_ret. unfold cl_act. rewrite E0. destruct c. reflexivity.
  - destruct (decompose (snd c)) as [[b ncl]|] eqn:Ed; [|exfalso; now apply Hd].
    rewrite expect_bind.
    apply (expect_draw_flips_ext _ _ (fun a => expect (Ret (match a with Some (sl', st', _) => (st', sl') | None => c end)) f) f).
    intros fl. unfold cl_act. rewrite E0, Ed.
    destruct (apply_flips (snd c) (fst c) b fl) as [sl' st']. rewrite !expect_ret. reflexivity.
Qed.

Record cluster_ready_w (H : ham) (wfn : op -> Q) (xs : list cfg) : Prop := {
  crw_valid : forall st sl, In (st, sl) xs -> Nat.eqb (count_ops sl) 0 = false ->
     exists b ncl, decompose sl = Some (b, ncl)
       /\ links_ok sl b = true /\ vars_in_range (length st) sl = true /\ wf st sl = true;
  (* for every flip vector of non-zero probability: the result is in the space, has the same cluster
     probabilities and the same product of matrix elements *)
  crw_poss : forall c fl, In c xs -> possible (clw_pr wfn) c fl ->
     In (cl_act c fl) xs /\ clw_pr wfn (cl_act c fl) = clw_pr wfn c
     /\ weight_product H (snd (cl_act c fl)) == weight_product H (snd c)
}.

Section ClusterKernelW.
  Variable H : ham.
  Variable wfn : op -> Q.
  Variable beta : Q.
  Variable xs : list cfg.
  Hypothesis Hnd : NoDup xs.
  Hypothesis Hcr : cluster_ready_w H wfn xs.

  Lemma cl_act_len_count c fl :
    length (snd (cl_act c fl)) = length (snd c) /\ count_ops (snd (cl_act c fl)) = count_ops (snd c).
  Proof.
    destruct c as [st sl]. unfold cl_act. cbn [fst snd].
    destruct (Nat.eqb (count_ops sl) 0); cbn [snd]; [auto|].
    destruct (decompose sl) as [[b ncl]|]; cbn [snd]; [|auto].
    destruct (apply_flips sl st b fl) as [sl' st'] eqn:Ea. cbn [snd].
    assert (E1 : sl' = fst (apply_flips sl st b fl)) by now rewrite Ea.
    rewrite E1, apply_flips_length, apply_flips_count. auto.
  Qed.

  Lemma cl_act_invol_w c fl : In c xs -> cl_act (cl_act c fl) fl = c.
  Proof.
    intros Hc. destruct c as [st sl]. unfold cl_act. cbn [fst snd].
    destruct (Nat.eqb (count_ops sl) 0) eqn:E0; cbn [fst snd]; [now rewrite E0|].
    destruct (crw_valid H wfn xs Hcr st sl Hc E0) as (b & ncl & Ed & Hl & Hv & Hwf). rewrite Ed.
    pose proof (cluster_flip_involutive sl st b fl Hv Hl Hwf) as Hinv.
    destruct (apply_flips sl st b fl) as [sl' st'] eqn:Ea. cbn [fst snd].
    assert (E1 : sl' = fst (apply_flips sl st b fl)) by now rewrite Ea.
    rewrite E1, apply_flips_count, E0, redecompose_same, Ed, <- E1, Hinv. reflexivity.
  Qed.

  Theorem cluster_kernel_w_stationary : wstat xs (W H beta) (cluster_cfg_w wfn).
  Proof.
    apply (wstat_ext_in xs (W H beta) (gkernel_w cl_act (clw_pr wfn))).
    - intros [st sl] f Hc. symmetry. apply cluster_cfg_w_is_gkernel. cbn [snd fst]. intros E0.
      destruct (crw_valid H wfn xs Hcr st sl Hc E0) as (b & ncl & Ed & _). congruence.
    - apply (gkernel_w_stationary cfg_eqb cfg_eqb_ok cl_act (clw_pr wfn) (W H beta) xs Hnd).
      + intros c fl Hc Hp. apply (crw_poss H wfn xs Hcr c fl Hc Hp).
      + intros c fl Hc Hp. apply (crw_poss H wfn xs Hcr c fl Hc Hp).
      + intros c fl Hc _. now apply cl_act_invol_w.
      + intros c fl Hc Hp. destruct (crw_poss H wfn xs Hcr c fl Hc Hp) as (_ & _ & Hw).
        destruct (cl_act_len_count c fl) as [El Ec]. unfold W, sse_weight. rewrite El, Ec, Hw. reflexivity.
  Qed.
End ClusterKernelW.

Definition pipeline_cfg_w (wfn : op -> Q) (upd : cfg -> prog cfg) (c : cfg) : prog cfg :=
  bind (upd c) (fun c1 => bind (cluster_cfg_w wfn c1) refresh_cfg).

Record tspace_ok_w (H : ham) (wfn : op -> Q) (L nv : nat) (xs : list cfg) : Prop := {
  tsw_space : space_ok H L xs;
  tsw_nvars : forall c, In c xs -> length (fst c) = nv;
  tsw_cluster : cluster_ready_w H wfn xs;
  tsw_free : forall st sl v, In (st, sl) xs -> var_has_ops sl v = false -> In (toggle_var st v, sl) xs
}.

Theorem pipeline_w_stationary H wfn beta L nv xs (upd : cfg -> prog cfg) :
  tspace_ok_w H wfn L nv xs -> wstat xs (W H beta) upd -> wstat xs (W H beta) (pipeline_cfg_w wfn upd).
Proof.
  intros Hts Hupd. unfold pipeline_cfg_w.
  apply (wstat_comp xs (W H beta) upd (fun c1 => bind (cluster_cfg_w wfn c1) refresh_cfg)); [exact Hupd|].
  apply (wstat_comp xs (W H beta) (cluster_cfg_w wfn) refresh_cfg).
  - apply (cluster_kernel_w_stationary H wfn beta xs (sp_nodup H L xs (tsw_space H wfn L nv xs Hts)) (tsw_cluster H wfn L nv xs Hts)).
  - apply (wstat_ext_in xs (W H beta) (refresh_sweep 0 nv)).
    + intros c f Hc. rewrite refresh_cfg_is_sweep, (tsw_nvars H wfn L nv xs Hts c Hc). reflexivity.
    + apply (refresh_sweep_stationary H beta xs (sp_nodup H L xs (tsw_space H wfn L nv xs Hts)) (tsw_free H wfn L nv xs Hts)).
Qed.

Theorem metropolis_timestep_w_stationary H wfn beta L nv xs :
  0 < beta -> (0 < h_nbonds H)%nat -> tspace_ok_w H wfn L nv xs ->
  wstat xs (W H beta) (pipeline_cfg_w wfn (update_cfg (met_update H beta))).
Proof.
  intros Hb Hk Hts. apply (pipeline_w_stationary H wfn beta L nv xs); [exact Hts|].
  apply (metropolis_update_stationary H beta L xs Hb Hk (tsw_space H wfn L nv xs Hts)).
Qed.

(* QmcIsingGraph::timestep WITH a longitudinal field is this pipeline with the flip ratio long_wf *)
Theorem ising_timestep_is_pipeline_w g beta st sl (f : cfg -> Q) :
  has_long g = true -> wf st sl = true ->
  (forall p r, In (p, r) (denote (met_update (ising_ham g) beta (length sl) st sl)) ->
     Nat.eqb (count_ops (fst (fst r))) 0 = false -> decompose (fst (fst r)) <> None) ->
  expect (ising_timestep g false beta (length sl) st sl) (obs_of f)
  == expect (pipeline_cfg_w (long_wf g) (update_cfg (met_update (ising_ham g) beta)) (st, sl)) f.
Proof.
  intros Hh Hwf Hdec. unfold ising_timestep, ising_diag, ising_cluster, pipeline_cfg_w, update_cfg. rewrite Hh.
  cbn [fst snd]. rewrite !expect_bind. unfold expect at 1 3. apply emass_ext_in. intros p [[sl1 n1] st1] Hin.
  rewrite expect_ret. cbn [fst snd].
  assert (Hst : st1 = st).
  { unfold met_update in Hin.
    destruct (diagonal_update_wf (ising_ham g) (fun L n st0 o => met_slot (ising_ham g) L n beta st0 o) (length sl) st sl
                (fun L n => met_slot_spec (ising_ham g) L n beta) (le_n _) Hwf p sl1 n1 st1 Hin) as [_ E]. exact E. }
  subst st1. unfold cluster_cfg_w. cbn [fst snd]. rewrite !expect_bind.
  unfold expect at 1 3. apply emass_ext_in_w. intros q r Hr.
  destruct r as [[[sl2 st2] ncl]|].
  - right. rewrite expect_ret, expect_bind. unfold refresh_cfg. cbn [fst snd]. rewrite expect_bind.
    apply expect_ext. intros st3. rewrite !expect_ret. reflexivity.
  - left. destruct (cluster_update_none_only_if _ _ _ _ _ Hr) as [Hz|[E0 Ed]]; [exact Hz|].
    exfalso. apply (Hdec p (sl1, n1, st) Hin E0 Ed).
Qed.

(* ---------------- deciding the weighted conditions on a concrete space ---------------- *)
Definition q_eqb_s (a b : Q) : bool := Z.eqb (Qnum a) (Qnum b) && Pos.eqb (Qden a) (Qden b).
Lemma q_eqb_s_ok a b : q_eqb_s a b = true <-> a = b.
Proof.
  unfold q_eqb_s. rewrite andb_true_iff, Z.eqb_eq, Pos.eqb_eq. destruct a, b; cbn.
  split; [intros [-> ->]; reflexivity|intros E; inversion E; auto].
Qed.

Definition cluster_check_w (H : ham) (wfn : op -> Q) (xs : list cfg) : bool :=
  forallb (fun c =>
    (if Nat.eqb (count_ops (snd c)) 0 then true
     else match decompose (snd c) with
          | Some (b, _) => links_ok (snd c) b && vars_in_range (length (fst c)) (snd c) && wf (fst c) (snd c)
          | None => false
          end)
    && forallb (fun fl =>
         if Qeq_bool (pw (clw_pr wfn c) fl) 0 then true
         else in_cfgs (cl_act c fl) xs
              && list_beq q_eqb_s (clw_pr wfn (cl_act c fl)) (clw_pr wfn c)
              && Qeq_bool (weight_product H (snd (cl_act c fl))) (weight_product H (snd c)))
       (all_substates (length (clw_pr wfn c)))) xs.

Theorem tspace_check_w_sound H wfn L nv xs :
  space_ok H L xs -> cluster_check_w H wfn xs = true -> free_check nv xs = true -> tspace_ok_w H wfn L nv xs.
Proof.
  intros Hsp Hcc Hfc. unfold cluster_check_w in Hcc. unfold free_check in Hfc.
  rewrite forallb_forall in Hcc, Hfc. constructor.
  - exact Hsp.
  - intros c Hc. specialize (Hfc c Hc). apply andb_true_iff in Hfc. now apply Nat.eqb_eq.
  - constructor.
    + intros st sl Hc E0. specialize (Hcc (st, sl) Hc). cbn [fst snd] in Hcc. rewrite E0 in Hcc.
      apply andb_true_iff in Hcc. destruct Hcc as [Hv _].
      destruct (decompose sl) as [[b ncl]|]; [|discriminate].
      rewrite !andb_true_iff in Hv. destruct Hv as [[Hl Hr] Hw]. exists b, ncl. auto.
    + intros c fl Hc [Hl Hp]. specialize (Hcc c Hc). apply andb_true_iff in Hcc. destruct Hcc as [_ Hall].
      rewrite forallb_forall in Hall. specialize (Hall fl (all_substates_complete _ _ Hl)).
      destruct (Qeq_bool (pw (clw_pr wfn c) fl) 0) eqn:Ez; [apply Qeq_bool_iff in Ez; contradiction|].
      rewrite !andb_true_iff in Hall. destruct Hall as [[Hi He] Hw].
      split; [now apply in_cfgs_ok|]. split; [now apply (list_beq_eq q_eqb_s q_eqb_s_ok)|now apply Qeq_bool_iff].
  - intros st sl v Hc Hv. specialize (Hfc (st, sl) Hc). cbn [fst snd] in Hfc.
    apply andb_true_iff in Hfc. destruct Hfc as [Hn Hall]. apply Nat.eqb_eq in Hn.
    destruct (Nat.lt_ge_cases v nv) as [Hlt|Hge].
    + rewrite forallb_forall in Hall. specialize (Hall v (proj2 (in_seq _ _ _) (conj (Nat.le_0_l _) Hlt))).
      rewrite Hv in Hall. cbn [orb] in Hall. now apply in_cfgs_ok.
    + rewrite toggle_beyond by lia. exact Hc.
Qed.

(* the example with a longitudinal field on spin 0: bond 2 has weights (0, 1) *)
Definition ex_ham_h : ham := mkHam 3
  (fun b => match b with O => [0; 1]%nat | 1%nat => [0%nat] | _ => [0%nat] end)
  (fun b => match b with 1%nat => true | _ => false end)
  (fun b i o => match b with
     | O => if bools_eqb i o then (match i with [a; c] => if Bool.eqb a c then 0 else 2 | _ => 0 end) else 0
     | 1%nat => 1
     | _ => if bools_eqb i o then (match i with [true] => 1 | _ => 0 end) else 0
     end).
Definition ex_wfn (o : op) : Q := if Nat.leb 2 (o_bond o) then 0 else 1.

Theorem ex_space_w_ok : tspace_ok_w ex_ham_h ex_wfn 2 2 (canon ex_ham_h (all_substates 2) 2).
Proof.
  apply tspace_check_w_sound.
  - apply canon_space_ok.
  - vm_compute. reflexivity.
  - vm_compute. reflexivity.
Qed.
