(* The replica-exchange step as a kernel on whole ladders (C05 / C10).

   [phase ps swp l] — the model program of perform_swaps: one uniform per neighbouring pair, exchange iff
   min(1, p_swap) exceeds it — is shown to be a REVERSIBLE kernel for the product weight
        Wl [a0; a1; ...] = w1 a0 * w1 a1 * ...
   whenever exchanging is an involution and p_swap is the ratio of the pair weights after / before
   (for Ising replicas: Proofs/SwapRatio.v).  Hence both pairing phases and the whole tempering step
   (fair choice of the order of the two phases) leave the product of the replicas' own weights stationary:
   every ladder position keeps sampling its own distribution. *)
From Coq Require Import List QArith Qminmax ZArith NArith Bool Arith Lia Lqa.
From QmcV Require Import Model.Prog Model.Sse Model.Diagonal Model.Tempering
     Proofs.ProgLemmas Proofs.SseWeight Proofs.TemperingProofs Proofs.ProgSafety Proofs.Expect Proofs.SweepStationary.
Import ListNotations.
Open Scope Q_scope.

Lemma list_ind2 {A} (P : list A -> Prop) :
  P [] -> (forall a, P [a]) -> (forall a b r, P r -> P (a :: b :: r)) -> forall l, P l.
Proof.
  intros H0 H1 H2. fix IH 1. intros [|a [|b r]]; [exact H0|apply H1|apply H2, IH].
Qed.

Lemma qmin1q_ge1 q : 1 <= q -> qmin1q q == 1.
Proof. intros H. unfold qmin1q. replace (Qle_bool 1 q) with true; [reflexivity|]. symmetry. now apply Qle_bool_iff. Qed.

Lemma qmin1q_lt1 q : 0 < q -> q < 1 -> qmin1q q == q.
Proof.
  intros H0 H1. unfold qmin1q.
  destruct (Qle_bool 1 q) eqn:E1; [apply Qle_bool_iff in E1; lra|].
  destruct (Qle_bool q 0) eqn:E0; [apply Qle_bool_iff in E0; lra|reflexivity].
Qed.

(* Metropolis balance from the two ratio identities *)
Lemma metropolis_pair_balance (x y r r' : Q) :
  0 < x -> 0 < y -> r * x == y -> r' * y == x -> x * qmin1q r == y * qmin1q r'.
Proof.
  intros Hx Hy Hr Hr'.
  assert (Er : r == y / x) by (field_simplify_eq; [lra|lra]).
  assert (Er' : r' == x / y) by (field_simplify_eq; [lra|lra]).
  assert (Hrpos : 0 < r) by (rewrite Er; apply Qdiv_pos; assumption).
  assert (Hr'pos : 0 < r') by (rewrite Er'; apply Qdiv_pos; assumption).
  destruct (Qlt_le_dec r 1) as [Hlt|Hge].
  - rewrite (qmin1q_lt1 r Hrpos Hlt).
    assert (H1 : 1 <= r').
    { rewrite Er'. apply Qle_shift_div_l; [exact Hy|]. rewrite <- Hr in *.
      assert (r * x < 1 * x) by (apply Qmult_lt_compat_r; assumption). lra. }
    rewrite (qmin1q_ge1 r' H1). lra.
  - rewrite (qmin1q_ge1 r Hge).
    destruct (Qlt_le_dec r' 1) as [Hlt'|Hge'].
    + rewrite (qmin1q_lt1 r' Hr'pos Hlt'). lra.
    + (* both ratios >= 1: then x = y *)
      rewrite (qmin1q_ge1 r' Hge').
      assert (x <= y) by (rewrite <- Hr; assert (1 * x <= r * x) by (apply Qmult_le_compat_r; lra); lra).
      assert (y <= x) by (rewrite <- Hr'; assert (1 * y <= r' * y) by (apply Qmult_le_compat_r; lra); lra).
      lra.
Qed.

Lemma expect_choose2 {A} (p q : Q) (f : nat -> prog A) (F : A -> Q) :
  expect (Choose [p; q] f) F == p / (p + (q + 0)) * expect (f 0%nat) F + q / (p + (q + 0)) * expect (f 1%nat) F.
Proof.
  unfold expect. cbn [denote length seq flat_map nth Qsum fold_right app].
  rewrite !emass_app, !emass_dscale, emass_nil. ring.
Qed.

Lemma expect_indicator_and {A} (m : prog A) (c : bool) (P : A -> bool) :
  expect m (fun x => if (c && P x)%bool then 1 else 0) == (if c then 1 else 0) * expect m (fun x => if P x then 1 else 0).
Proof.
  destruct c; cbn [andb].
  - ring.
  - unfold expect. rewrite Qmult_0_l. induction (denote m) as [|[p a] d IH]; [reflexivity|].
    rewrite emass_cons, IH. ring.
Qed.

Lemma expect_zero {A} (m : prog A) (g : A -> Q) : (forall x, g x == 0) -> expect m g == 0.
Proof.
  intros Hg. unfold expect. induction (denote m) as [|[q x] d IHd]; [reflexivity|].
  rewrite emass_cons, IHd, Hg. ring.
Qed.

Section Ladder.
  Context {A : Type} (eqb : A -> A -> bool).
  Hypothesis eqb_ok : forall x y, eqb x y = true <-> x = y.
  Variable w1 : A -> Q.
  Variable ps : A -> A -> Q.
  Variable swp : A -> A -> A * A.
  (* admissible neighbouring pairs *)
  Variable Dp : A -> A -> Prop.
  Hypothesis Hpos : forall a b, Dp a b -> 0 < w1 a /\ 0 < w1 b.
  Hypothesis Hinv : forall a b, swp (fst (swp a b)) (snd (swp a b)) = (a, b).
  Hypothesis Hratio : forall a b, Dp a b ->
     ps a b * (w1 a * w1 b) == w1 (fst (swp a b)) * w1 (snd (swp a b)).

  (* every pair (l_0, l_1), (l_2, l_3), ... of the ladder is admissible *)
  Fixpoint pairs_ok (l : list A) : Prop :=
    match l with
    | a :: l0 => match l0 with b :: r => Dp a b /\ pairs_ok r | [] => True end
    | [] => True
    end.

  Definition Wl (l : list A) : Q := fold_right (fun a acc => w1 a * acc) 1 l.
  Definition leqb := list_beq eqb.
  Lemma leqb_ok a b : leqb a b = true <-> a = b.
  Proof. apply list_beq_eq, eqb_ok. Qed.

  Definition ind (b : bool) : Q := if b then 1 else 0.

  (* the ladder kernel of one pairing phase *)
  Definition phase_l (l : list A) : prog (list A) := bind (phase ps swp l) (fun r => Ret (fst r)).

  (* its transition probabilities, by recursion over the pairs *)
  Fixpoint T (l l' : list A) : Q :=
    match l with
    | [] => match l' with [] => 1 | _ => 0 end
    | a :: l0 =>
        match l0 with
        | [] => match l' with [a1] => ind (eqb a1 a) | _ => 0 end
        | b :: r =>
            match l' with
            | a1 :: b1 :: r1 =>
                (qmin1q (ps a b) * ind (eqb a1 (fst (swp a b)) && eqb b1 (snd (swp a b)))
                 + (1 - qmin1q (ps a b)) * ind (eqb a1 a && eqb b1 b)) * T r r1
            | _ => 0
            end
        end
    end.

  Lemma expect_phase_l_pair a b r (F : list A -> Q) :
    expect (phase_l (a :: b :: r)) F
    == qmin1q (ps a b) * expect (phase_l r) (fun r' => F (fst (swp a b) :: snd (swp a b) :: r'))
       + (1 - qmin1q (ps a b)) * expect (phase_l r) (fun r' => F (a :: b :: r')).
  Proof.
    unfold phase_l. cbn [phase bind]. rewrite expect_choose2.
    set (p := qmin1q (ps a b)).
    assert (E0 : p / (p + (1 - p + 0)) == p) by (field; lra).
    assert (E1 : (1 - p) / (p + (1 - p + 0)) == 1 - p) by (field; lra).
    rewrite E0, E1. cbn [Nat.eqb]. destruct (swp a b) as [a' b']. cbn [fst snd]. cbv beta iota zeta.
    apply Qplus_comp; apply Qmult_comp; try reflexivity.
    - etransitivity; [apply expect_bind|]. etransitivity; [apply expect_bind|]. symmetry.
      etransitivity; [apply expect_bind|]. apply expect_ext. intros [r' c].
      etransitivity; [apply expect_ret|]. symmetry. etransitivity; [apply expect_ret|]. apply expect_ret.
    - etransitivity; [apply expect_bind|]. etransitivity; [apply expect_bind|]. symmetry.
      etransitivity; [apply expect_bind|]. apply expect_ext. intros [r' c].
      etransitivity; [apply expect_ret|]. symmetry. etransitivity; [apply expect_ret|]. apply expect_ret.
  Qed.

  Lemma mass_phase_l : forall l l', mass (leqb l') (denote (phase_l l)) == T l l'.
  Proof.
    induction l as [| a | a b r IH] using list_ind2; intros l'.
    - unfold phase_l. cbn [phase bind]. rewrite mass_ret. destruct l'; reflexivity.
    - unfold phase_l. cbn [phase bind]. rewrite mass_ret. cbn [fst T].
      destruct l' as [|a1 [|? ?]]; cbn [leqb list_beq]; try reflexivity.
      + rewrite andb_true_r. reflexivity.
      + rewrite andb_false_r. reflexivity.
    - rewrite mass_as_emass. change (emass ?f (denote ?m)) with (expect m f).
      rewrite expect_phase_l_pair. cbn [T].
      destruct l' as [|a1 [|b1 r1]].
      + rewrite !expect_zero; [ring| |]; intros x; reflexivity.
      + rewrite !expect_zero; [ring| |]; intros x; unfold leqb; cbn [list_beq]; rewrite andb_false_r; reflexivity.
      + cbn [leqb list_beq].
        transitivity (qmin1q (ps a b) * (ind (eqb a1 (fst (swp a b)) && eqb b1 (snd (swp a b))) * expect (phase_l r) (fun x => if leqb r1 x then 1 else 0))
                      + (1 - qmin1q (ps a b)) * (ind (eqb a1 a && eqb b1 b) * expect (phase_l r) (fun x => if leqb r1 x then 1 else 0))).
        * apply Qplus_comp; apply Qmult_comp; try reflexivity.
          -- unfold ind. etransitivity; [|apply expect_indicator_and]. apply expect_ext. intros x.
             unfold leqb. cbn [list_beq]. rewrite andb_assoc. reflexivity.
          -- unfold ind. etransitivity; [|apply expect_indicator_and]. apply expect_ext. intros x.
             unfold leqb. cbn [list_beq]. rewrite andb_assoc. reflexivity.
        * unfold expect. rewrite <- mass_as_emass, (IH r1). ring.
  Qed.

  Lemma ind_and_true (x y : bool) : x = true -> y = true -> ind (x && y) = 1.
  Proof. intros -> ->. reflexivity. Qed.

  (* pair-level detailed balance *)
  Lemma pair_balance a b a1 b1 :
    Dp a b -> Dp a1 b1 ->
    w1 a * w1 b * (qmin1q (ps a b) * ind (eqb a1 (fst (swp a b)) && eqb b1 (snd (swp a b)))
                   + (1 - qmin1q (ps a b)) * ind (eqb a1 a && eqb b1 b))
    == w1 a1 * w1 b1 * (qmin1q (ps a1 b1) * ind (eqb a (fst (swp a1 b1)) && eqb b (snd (swp a1 b1)))
                        + (1 - qmin1q (ps a1 b1)) * ind (eqb a a1 && eqb b b1)).
  Proof.
    intros Dab Dab1.
    destruct (eqb a1 a && eqb b1 b)%bool eqn:Esame.
    - apply andb_true_iff in Esame. destruct Esame as [E1 E2]. apply eqb_ok in E1, E2. subst a1 b1.
      replace (eqb a a && eqb b b)%bool with true by (symmetry; apply andb_true_iff; split; now apply eqb_ok).
      reflexivity.
    - assert (Esame' : (eqb a a1 && eqb b b1)%bool = false).
      { destruct (eqb a a1 && eqb b b1)%bool eqn:E; [|reflexivity]. apply andb_true_iff in E. destruct E as [E1 E2].
        apply eqb_ok in E1, E2. subst. rewrite (proj2 (eqb_ok a1 a1) eq_refl), (proj2 (eqb_ok b1 b1) eq_refl) in Esame. discriminate. }
      rewrite Esame'. cbn [ind]. rewrite !Qmult_0_r, !Qplus_0_r.
      pose proof (Hinv a b) as Hi. pose proof (Hinv a1 b1) as Hi1.
      destruct (eqb a1 (fst (swp a b)) && eqb b1 (snd (swp a b)))%bool eqn:Esw.
      + apply andb_true_iff in Esw. destruct Esw as [E1 E2]. apply eqb_ok in E1, E2.
        assert (Eback : swp a1 b1 = (a, b)) by (rewrite E1, E2; exact Hi).
        rewrite Eback. cbn [fst snd].
        rewrite (proj2 (eqb_ok a a) eq_refl), (proj2 (eqb_ok b b) eq_refl). cbn [andb ind]. rewrite !Qmult_1_r.
        pose proof (Hratio a b Dab) as R1. pose proof (Hratio a1 b1 Dab1) as R2.
        rewrite Eback in R2. cbn [fst snd] in R2. rewrite <- E1, <- E2 in R1.
        apply (metropolis_pair_balance (w1 a * w1 b) (w1 a1 * w1 b1) (ps a b) (ps a1 b1)); auto.
        * destruct (Hpos a b Dab). apply Qmult_lt_0_compat; assumption.
        * destruct (Hpos a1 b1 Dab1). apply Qmult_lt_0_compat; assumption.
      + replace (eqb a (fst (swp a1 b1)) && eqb b (snd (swp a1 b1)))%bool with false; [cbn [ind]; ring|].
        symmetry. destruct (eqb a (fst (swp a1 b1)) && eqb b (snd (swp a1 b1)))%bool eqn:E; [|reflexivity].
        apply andb_true_iff in E. destruct E as [E1 E2]. apply eqb_ok in E1, E2.
        (* then swapping (a, b) gives (a1, b1): contradiction *)
        assert (Ef : swp a b = (a1, b1)) by (rewrite E1, E2; exact Hi1).
        rewrite Ef in Esw. cbn [fst snd] in Esw.
        rewrite (proj2 (eqb_ok a1 a1) eq_refl), (proj2 (eqb_ok b1 b1) eq_refl) in Esw. discriminate.
  Qed.

  (* detailed balance of a whole pairing phase on ladders *)
  Theorem phase_T_balance : forall l l', pairs_ok l -> pairs_ok l' -> Wl l * T l l' == Wl l' * T l' l.
  Proof.
    induction l as [| a | a b r IH] using list_ind2; intros l' Hl Hl'.
    - destruct l' as [|a1 [|b1 r1]]; cbn [T Wl fold_right]; ring.
    - destruct l' as [|a1 [|b1 r1]]; cbn [T Wl fold_right]; try ring.
      destruct (eqb a1 a) eqn:E.
      + apply eqb_ok in E. subst. rewrite (proj2 (eqb_ok a a) eq_refl). reflexivity.
      + replace (eqb a a1) with false; [cbn [ind]; ring|].
        symmetry. destruct (eqb a a1) eqn:E'; [|reflexivity]. apply eqb_ok in E'. subst.
        rewrite (proj2 (eqb_ok a1 a1) eq_refl) in E. discriminate.
    - destruct l' as [|a1 [|b1 r1]]; cbn [T Wl fold_right]; try ring.
      cbn [pairs_ok] in Hl, Hl'. destruct Hl as [Dab Hr]. destruct Hl' as [Dab1 Hr1].
      pose proof (pair_balance a b a1 b1 Dab Dab1) as Hp.
      pose proof (IH r1 Hr Hr1) as Hrec. fold (Wl r) (Wl r1) in *.
      set (X := qmin1q (ps a b) * ind (eqb a1 (fst (swp a b)) && eqb b1 (snd (swp a b))) + (1 - qmin1q (ps a b)) * ind (eqb a1 a && eqb b1 b)) in *.
      set (Y := qmin1q (ps a1 b1) * ind (eqb a (fst (swp a1 b1)) && eqb b (snd (swp a1 b1))) + (1 - qmin1q (ps a1 b1)) * ind (eqb a a1 && eqb b b1)) in *.
      transitivity ((w1 a * w1 b * X) * (Wl r * T r r1)); [ring|]. rewrite Hp, Hrec. ring.
  Qed.

  Theorem phase_l_detailed_balance l l' :
    pairs_ok l -> pairs_ok l' ->
    Wl l * mass (leqb l') (denote (phase_l l)) == Wl l' * mass (leqb l) (denote (phase_l l')).
  Proof. intros Hl Hl'. rewrite !mass_phase_l. now apply phase_T_balance. Qed.

  Lemma phase_l_total : forall l, total (denote (phase_l l)) == 1.
  Proof.
    induction l as [| a | a b r IH] using list_ind2.
    - unfold phase_l, total. cbn [phase bind]. rewrite mass_ret. reflexivity.
    - unfold phase_l, total. cbn [phase bind]. rewrite mass_ret. reflexivity.
    - rewrite total_as_emass. change (emass ?f (denote ?m)) with (expect m f).
      rewrite expect_phase_l_pair. unfold expect. rewrite <- !total_as_emass, IH. ring.
  Qed.

  (* ---------------- the ladder space ---------------- *)
  Variable xs : list (list A).
  Hypothesis Hnd : NoDup xs.
  Hypothesis HD : forall l, In l xs -> pairs_ok l.
  (* closed under the exchange of any neighbouring pair *)
  Hypothesis Hcl : forall pre a b suf, In (pre ++ a :: b :: suf) xs ->
     In (pre ++ fst (swp a b) :: snd (swp a b) :: suf) xs.

  Lemma phase_support : forall l pre, In (pre ++ l) xs ->
    all_out_r (fun rc : list A * nat => In (pre ++ fst rc) xs) (phase ps swp l).
  Proof.
    induction l as [| a | a b r IH] using list_ind2; intros pre Hin; cbn [phase all_out_r fst]; try exact Hin.
    intros i Hi. cbn [length] in Hi.
    assert (Hcase : i = 0%nat \/ i = 1%nat) by lia. destruct Hcase as [-> | ->]; cbn [Nat.eqb].
    - destruct (swp a b) as [a' b'] eqn:Es.
      assert (Hin' : In ((pre ++ [a'; b']) ++ r) xs).
      { rewrite <- app_assoc. cbn [app]. pose proof (Hcl pre a b r Hin) as Hc. rewrite Es in Hc. exact Hc. }
      apply (all_out_r_bind (fun rc => In ((pre ++ [a'; b']) ++ fst rc) xs)); [now apply IH|].
      intros [r' c] Hr. cbn [all_out_r fst] in *. rewrite <- app_assoc in Hr. exact Hr.
    - assert (Hin' : In ((pre ++ [a; b]) ++ r) xs) by (rewrite <- app_assoc; exact Hin).
      apply (all_out_r_bind (fun rc => In ((pre ++ [a; b]) ++ fst rc) xs)); [now apply IH|].
      intros [r' c] Hr. cbn [all_out_r fst] in *. rewrite <- app_assoc in Hr. exact Hr.
  Qed.

  Lemma phase_l_closed l : In l xs -> supp_in xs (denote (phase_l l)).
  Proof.
    intros Hin. unfold supp_in. apply Forall_forall. intros [q l'] Hq. right.
    assert (Hall : all_out_r (fun l0 => In l0 xs) (phase_l l)).
    { unfold phase_l. apply (all_out_r_bind (fun rc : list A * nat => In ([] ++ fst rc) xs)); [now apply phase_support|].
      intros rc Hrc. exact Hrc. }
    apply (all_out_r_denote _ _ Hall q l' Hq).
  Qed.

  Theorem phase_l_stationary : wstat xs Wl phase_l.
  Proof.
    apply (wstat_of_detailed_balance leqb leqb_ok); [exact Hnd| | |].
    - intros l Hl. now apply phase_l_closed.
    - intros l _. apply phase_l_total.
    - intros l l' Hl Hl'. apply phase_l_detailed_balance; now apply HD.
  Qed.
End Ladder.

(* ------------------------------------------------------------------ *)
(* the second pairing, the model's phase_a / phase_b, and the whole step *)
Lemma split_last_app {A} (l : list A) i x : split_last l = Some (i, x) -> l = i ++ [x].
Proof.
  revert i x. induction l as [|a l IH]; intros i x H; cbn [split_last] in H; [discriminate|].
  destruct l as [|b r]; [inversion H; reflexivity|].
  destruct (split_last (b :: r)) as [[i' y]|] eqn:E; [|discriminate]. inversion H; subst.
  cbn [app]. f_equal. now apply IH.
Qed.

Lemma split_last_some {A} (l : list A) : l <> [] -> exists i x, split_last l = Some (i, x).
Proof.
  induction l as [|a l IH]; intros Hne; [congruence|]. destruct l as [|b r]; [exists [], a; reflexivity|].
  destruct IH as (i & x & E); [discriminate|]. exists (a :: i), x. cbn [split_last] in *. now rewrite E.
Qed.

Lemma wstat_mix {X} (xs : list X) (Wt : X -> Q) (K K1 K2 : X -> prog X) (c : Q) :
  wstat xs Wt K1 -> wstat xs Wt K2 ->
  (forall x f, In x xs -> expect (K x) f == c * expect (K1 x) f + (1 - c) * expect (K2 x) f) ->
  wstat xs Wt K.
Proof.
  intros H1 H2 HK f.
  transitivity (c * Qsum (map (fun x => Wt x * expect (K1 x) f) xs) + (1 - c) * Qsum (map (fun x => Wt x * expect (K2 x) f) xs)).
  - rewrite <- !Qsum_map_scale, <- Qsum_map_plus. apply Qsum_ext. intros x Hx. rewrite (HK x f Hx). ring.
  - rewrite (H1 f), (H2 f). ring.
Qed.

Section Step.
  Context {A : Type} (eqb : A -> A -> bool).
  Hypothesis eqb_ok : forall x y, eqb x y = true <-> x = y.
  Variable w1 : A -> Q.
  Variable ps : A -> A -> Q.
  Variable swp : A -> A -> A * A.
  Variable Dp : A -> A -> Prop.
  Hypothesis Hpos : forall a b, Dp a b -> 0 < w1 a /\ 0 < w1 b.
  Hypothesis Hinv : forall a b, swp (fst (swp a b)) (snd (swp a b)) = (a, b).
  Hypothesis Hratio : forall a b, Dp a b ->
     ps a b * (w1 a * w1 b) == w1 (fst (swp a b)) * w1 (snd (swp a b)).
  Variable xs : list (list A).
  Hypothesis Hnd : NoDup xs.
  (* every neighbouring pair of every ladder of the space is admissible, at even and at odd offsets *)
  Hypothesis HD : forall l, In l xs -> pairs_ok Dp l /\ pairs_ok Dp (tl l).
  Hypothesis Hcl : forall pre a b suf, In (pre ++ a :: b :: suf) xs ->
     In (pre ++ fst (swp a b) :: snd (swp a b) :: suf) xs.

  Let PL := phase_l ps swp.
  Let WL := Wl w1.
  Let LEQ := leqb eqb.

  Definition phaseB_l (l : list A) : prog (list A) :=
    match l with [] => Ret [] | h :: t => bind (PL t) (fun t' => Ret (h :: t')) end.

  Definition TB (l l' : list A) : Q :=
    match l, l' with
    | [], [] => 1
    | h :: t, h1 :: t1 => ind (eqb h1 h) * T eqb ps swp t t1
    | _, _ => 0
    end.

  Lemma mass_phaseB l l' : mass (LEQ l') (denote (phaseB_l l)) == TB l l'.
  Proof.
    destruct l as [|h t]; cbn [phaseB_l TB].
    - rewrite mass_ret. destruct l'; reflexivity.
    - rewrite mass_bind_ret. destruct l' as [|h1 t1].
      + apply ClusterProofs.mass_zero_if_never. reflexivity.
      + unfold LEQ, leqb. cbn [list_beq]. rewrite mass_andb_const.
        change (list_beq eqb t1) with (leqb eqb t1). unfold PL, ind.
        destruct (eqb h1 h); [rewrite (mass_phase_l eqb)|]; ring.
  Qed.

  Lemma phaseB_detailed_balance l l' :
    In l xs -> In l' xs ->
    WL l * mass (LEQ l') (denote (phaseB_l l)) == WL l' * mass (LEQ l) (denote (phaseB_l l')).
  Proof.
    intros Hl Hl'. rewrite !mass_phaseB. destruct l as [|h t], l' as [|h1 t1]; cbn [TB]; try ring.
    destruct (HD _ Hl) as [_ Ht]. destruct (HD _ Hl') as [_ Ht1]. cbn [tl] in Ht, Ht1.
    pose proof (phase_T_balance eqb eqb_ok w1 ps swp Dp Hpos Hinv Hratio t t1 Ht Ht1) as Hb.
    unfold WL, Wl. cbn [fold_right]. fold (Wl w1 t) (Wl w1 t1).
    destruct (eqb h1 h) eqn:E.
    - apply eqb_ok in E. subst. rewrite (proj2 (eqb_ok h h) eq_refl). unfold ind.
      transitivity (w1 h * (Wl w1 t * T eqb ps swp t t1)); [ring|]. rewrite Hb. ring.
    - replace (eqb h h1) with false; [unfold ind; ring|].
      symmetry. destruct (eqb h h1) eqn:E'; [|reflexivity]. apply eqb_ok in E'. subst.
      rewrite (proj2 (eqb_ok h1 h1) eq_refl) in E. discriminate.
  Qed.

  Lemma phaseB_closed l : In l xs -> supp_in xs (denote (phaseB_l l)).
  Proof.
    intros Hin. unfold supp_in. apply Forall_forall. intros [q l'] Hq. right.
    assert (Hall : all_out_r (fun l0 => In l0 xs) (phaseB_l l)).
    { destruct l as [|h t]; cbn [phaseB_l all_out_r]; [exact Hin|].
      unfold PL, phase_l. apply (all_out_r_bind (fun t' : list A => In ([h] ++ t') xs)).
      - apply (all_out_r_bind (fun rc : list A * nat => In ([h] ++ fst rc) xs)).
        + apply (phase_support ps swp xs Hcl t [h]). exact Hin.
        + intros rc Hrc. exact Hrc.
      - intros t' Ht'. exact Ht'. }
    apply (all_out_r_denote _ _ Hall q l' Hq).
  Qed.

  Lemma phaseB_total l : total (denote (phaseB_l l)) == 1.
  Proof.
    destruct l as [|h t]; cbn [phaseB_l]; unfold total; [rewrite mass_ret; reflexivity|].
    rewrite mass_bind_ret. apply (phase_l_total ps swp).
  Qed.

  Theorem phaseA_stationary : wstat xs WL PL.
  Proof.
    apply (phase_l_stationary eqb eqb_ok w1 ps swp Dp Hpos Hinv Hratio xs Hnd); [|exact Hcl].
    intros l Hl. apply (HD l Hl).
  Qed.

  Theorem phaseB_stationary : wstat xs WL phaseB_l.
  Proof.
    apply (wstat_of_detailed_balance LEQ (leqb_ok eqb eqb_ok)); [exact Hnd| | |].
    - intros l Hl. now apply phaseB_closed.
    - intros l _. apply phaseB_total.
    - intros l l' Hl Hl'. now apply phaseB_detailed_balance.
  Qed.

  (* the two orders of the two phases, mixed by a fair coin *)
  Definition step_l (l : list A) : prog (list A) :=
    Bern (1 # 2) (fun first => if first then bind (PL l) phaseB_l else bind (phaseB_l l) PL).

  Theorem step_l_stationary : wstat xs WL step_l.
  Proof.
    apply (wstat_mix xs WL step_l (fun l => bind (PL l) phaseB_l) (fun l => bind (phaseB_l l) PL) (1 # 2)).
    - apply wstat_comp; [apply phaseA_stationary|apply phaseB_stationary].
    - apply wstat_comp; [apply phaseB_stationary|apply phaseA_stationary].
    - intros l f _. unfold step_l, expect. cbn [denote]. rewrite emass_app, !emass_dscale. reflexivity.
  Qed.
End Step.

(* ------------------------------------------------------------------ *)
(* the kernels above ARE the model programs of tempering_container.rs  *)
Section Tie.
  Context {A : Type}.
  Variable ps : A -> A -> Q.
  Variable swp : A -> A -> A * A.

  Lemma phase_l_snoc x : forall i (F : list A -> Q), Nat.even (length i) = true ->
    expect (phase_l ps swp (i ++ [x])) F == expect (phase_l ps swp i) (fun i' => F (i' ++ [x])).
  Proof.
    induction i as [| a | a b r IH] using list_ind2; intros F He.
    - unfold phase_l. cbn [app phase bind]. rewrite !expect_ret. reflexivity.
    - discriminate.
    - cbn [app]. rewrite !expect_phase_l_pair. cbn [length Nat.even] in He.
      rewrite (IH (fun r' => F (fst (swp a b) :: snd (swp a b) :: r')) He), (IH (fun r' => F (a :: b :: r')) He). reflexivity.
  Qed.

  Lemma even_pred_odd n : Nat.even (S n) = false -> Nat.even n = true.
  Proof. rewrite Nat.even_succ, <- Nat.negb_even. destruct (Nat.even n); cbn; congruence. Qed.

  Lemma phase_a_is_phase_l l (F : list A -> Q) :
    expect (bind (phase_a ps swp l) (fun rc => Ret (fst rc))) F == expect (phase_l ps swp l) F.
  Proof.
    unfold phase_a. destruct (Nat.even (length l)) eqn:He; [reflexivity|].
    destruct l as [|a l0]; [discriminate|].
    destruct (split_last_some (a :: l0)) as (i & x & Es); [discriminate|]. rewrite Es.
    pose proof (split_last_app _ _ _ Es) as El. rewrite El.
    assert (Hi : Nat.even (length i) = true).
    { rewrite El, app_length in He. cbn [length] in He. rewrite Nat.add_1_r in He. now apply even_pred_odd. }
    rewrite (phase_l_snoc x i F Hi). unfold phase_l.
    etransitivity; [apply expect_bind|]. etransitivity; [apply expect_bind|]. symmetry.
    etransitivity; [apply expect_bind|]. apply expect_ext. intros [i' c].
    etransitivity; [apply expect_ret|]. symmetry. etransitivity; [apply expect_ret|]. apply expect_ret.
  Qed.

  Lemma phase_b_is_phaseB_l l (F : list A -> Q) :
    expect (bind (phase_b ps swp l) (fun rc => Ret (fst rc))) F == expect (phaseB_l ps swp l) F.
  Proof.
    destruct l as [|h t]; cbn [phase_b phaseB_l]; [cbn [bind]; reflexivity|].
    (* phase_b (h :: t) is phase_a t with h put back in front *)
    transitivity (expect (bind (phase_a ps swp t) (fun rc => Ret (fst rc))) (fun t' => F (h :: t'))).
    - unfold phase_a. destruct (Nat.even (length t)).
      + etransitivity; [apply expect_bind|]. etransitivity; [apply expect_bind|]. symmetry.
        etransitivity; [apply expect_bind|]. apply expect_ext. intros [t' c].
        etransitivity; [apply expect_ret|]. symmetry. etransitivity; [apply expect_ret|]. apply expect_ret.
      + destruct (split_last t) as [[i x]|].
        * etransitivity; [apply expect_bind|]. etransitivity; [apply expect_bind|]. symmetry.
          etransitivity; [apply expect_bind|]. etransitivity; [apply expect_bind|]. apply expect_ext. intros [i' c].
          etransitivity; [apply expect_ret|]. etransitivity; [apply expect_ret|]. symmetry.
          etransitivity; [apply expect_ret|]. apply expect_ret.
        * cbn [bind]. rewrite !expect_ret. reflexivity.
    - rewrite (phase_a_is_phase_l t (fun t' => F (h :: t'))).
      symmetry. etransitivity; [apply expect_bind|]. apply expect_ext. intros t'. apply expect_ret.
  Qed.

  (* two counted phases in sequence, counts dropped at the end = the two uncounted kernels in sequence *)
  Lemma expect_seq2 (m1 : prog (list A * nat)) (m2 : list A -> prog (list A * nat)) (F : list A -> Q) :
    expect (bind (bind m1 (fun '(l1, c1) => bind (m2 l1) (fun '(l2, c2) => Ret (l2, (c1 + c2)%nat))))
                 (fun rc => Ret (fst rc))) F
    == expect (bind m1 (fun rc => Ret (fst rc)))
              (fun l1 => expect (bind (m2 l1) (fun rc => Ret (fst rc))) F).
  Proof.
    etransitivity; [apply expect_bind|]. etransitivity; [apply expect_bind|].
    symmetry. etransitivity; [apply expect_bind|]. symmetry.
    apply expect_ext. intros [l1 c1]. cbv beta iota.
    etransitivity; [apply expect_bind|].
    symmetry. etransitivity; [apply expect_ret|]. cbv beta. cbn [fst].
    etransitivity; [apply expect_bind|]. symmetry.
    apply expect_ext. intros [l2 c2]. cbv beta iota.
    etransitivity; [apply expect_ret|]. cbv beta. cbn [fst]. reflexivity.
  Qed.

  Theorem tempering_step_is_step_l l (F : list A -> Q) :
    (1 < length l)%nat ->
    expect (bind (tempering_step ps swp l) (fun rc => Ret (fst rc))) F == expect (step_l ps swp l) F.
  Proof.
    intros Hl. unfold tempering_step, step_l.
    replace (Nat.leb (length l) 1) with false by (symmetry; apply Nat.leb_gt; exact Hl).
    cbn [bind]. unfold expect at 1 2. cbn [denote]. rewrite !emass_app, !emass_dscale.
    change (emass ?f (denote ?m)) with (expect m f).
    apply Qplus_comp; apply Qmult_comp; try reflexivity.
    - rewrite (expect_seq2 (phase_a ps swp l) (phase_b ps swp) F).
      rewrite (phase_a_is_phase_l l). symmetry. etransitivity; [apply expect_bind|].
      apply expect_ext. intros l1. symmetry. apply phase_b_is_phaseB_l.
    - rewrite (expect_seq2 (phase_b ps swp l) (phase_a ps swp) F).
      rewrite (phase_b_is_phaseB_l l). symmetry. etransitivity; [apply expect_bind|].
      apply expect_ext. intros l1. symmetry. apply phase_a_is_phase_l.
  Qed.
End Tie.

(* ------------------------------------------------------------------ *)
(* Ising replicas                                                      *)
From QmcV Require Import Model.Ham Proofs.SwapRatio Proofs.HamProofs Proofs.FastOpsLemmas.

Definition q_eqb (a b : Q) : bool := Z.eqb (Qnum a) (Qnum b) && Pos.eqb (Qden a) (Qden b).
Lemma q_eqb_ok a b : q_eqb a b = true <-> a = b.
Proof.
  unfold q_eqb. rewrite andb_true_iff, Z.eqb_eq, Pos.eqb_eq. destruct a, b; cbn.
  split; [intros [-> ->]; reflexivity|intros E; inversion E; auto].
Qed.

Definition edge_eqb (a b : nat * nat * Q) : bool :=
  Nat.eqb (fst (fst a)) (fst (fst b)) && Nat.eqb (snd (fst a)) (snd (fst b)) && q_eqb (snd a) (snd b).
Lemma edge_eqb_ok a b : edge_eqb a b = true <-> a = b.
Proof.
  unfold edge_eqb. rewrite !andb_true_iff, !Nat.eqb_eq, q_eqb_ok. destruct a as [[x y] j], b as [[x' y'] j']; cbn.
  split; [intros [[-> ->] ->]; reflexivity|intros E; inversion E; auto].
Qed.

Definition ising_eqb (a b : ising) : bool :=
  list_beq edge_eqb (i_edges a) (i_edges b) && q_eqb (i_gamma a) (i_gamma b) && q_eqb (i_h a) (i_h b)
  && Nat.eqb (i_nvars a) (i_nvars b).
Lemma ising_eqb_ok a b : ising_eqb a b = true <-> a = b.
Proof.
  unfold ising_eqb. rewrite !andb_true_iff, (list_beq_eq edge_eqb edge_eqb_ok), !q_eqb_ok, Nat.eqb_eq.
  destruct a, b; cbn. split; [intros [[[-> ->] ->] ->]; reflexivity|intros E; inversion E; auto].
Qed.

Definition replica_eqb (a b : replica) : bool :=
  ising_eqb (rp_ham a) (rp_ham b) && q_eqb (rp_beta a) (rp_beta b) && Nat.eqb (rp_cutoff a) (rp_cutoff b)
  && bools_eqb (rp_state a) (rp_state b) && slots_eqb (rp_slots a) (rp_slots b).
Lemma replica_eqb_ok a b : replica_eqb a b = true <-> a = b.
Proof.
  unfold replica_eqb. rewrite !andb_true_iff, ising_eqb_ok, q_eqb_ok, Nat.eqb_eq, bools_eqb_eq, slots_eqb_eq.
  destruct a, b; cbn. split; [intros [[[[-> ->] ->] ->] ->]; reflexivity|intros E; inversion E; auto].
Qed.

Definition rp_weight (r : replica) : Q := sse_weight (ising_ham (rp_ham r)) (rp_beta r) (rp_slots r).

Lemma weight_product_pos H sl : all_legal H sl = true -> 0 < weight_product H sl.
Proof.
  induction sl as [|o sl IH]; intros Hl; cbn [weight_product fold_right]; [lra|].
  unfold all_legal in Hl. cbn [forallb] in Hl. apply andb_true_iff in Hl. destruct Hl as [Ho Hr].
  fold (weight_product H sl). specialize (IH Hr). destruct o as [a|]; [|exact IH].
  unfold op_legal in Ho. rewrite !andb_true_iff, negb_true_iff in Ho. destruct Ho as [_ Hw].
  assert (0 < op_weight H a).
  { destruct (Qlt_le_dec 0 (op_weight H a)) as [Hp|Hn]; [exact Hp|]. apply Qle_bool_iff in Hn. congruence. }
  now apply Qmult_lt_0_compat.
Qed.

Lemma sse_weight_pos H beta sl : all_legal H sl = true -> 0 < beta -> 0 < sse_weight H beta sl.
Proof.
  intros Hl Hb. unfold sse_weight.
  pose proof (weight_product_pos H sl Hl). pose proof (qpow_pos beta (count_ops sl) Hb).
  pose proof (qfact_pos (length sl - count_ops sl)). pose proof (qfact_pos (length sl)).
  apply Qmult_lt_0_compat; [|assumption]. apply Qdiv_pos; [|assumption]. now apply Qmult_lt_0_compat.
Qed.

Lemma swap_replicas_invol a b :
  swap_replicas (fst (swap_replicas a b)) (snd (swap_replicas a b)) = (a, b).
Proof. destruct a, b. reflexivity. Qed.

Definition ladder_weight (l : list replica) : Q := Wl rp_weight l.
Definition ladder_step (l : list replica) : prog (list replica) :=
  bind (tempering_step p_swap swap_replicas l) (fun rc => Ret (fst rc)).

(* the product of the replicas' own SSE weights is stationary under the whole tempering step *)
Theorem ising_tempering_step_stationary (xs : list (list replica)) :
  NoDup xs ->
  (forall l, In l xs -> (1 < length l)%nat) ->
  (forall l, In l xs -> pairs_ok (fun a b => swap_hyps a b = true) l /\ pairs_ok (fun a b => swap_hyps a b = true) (tl l)) ->
  (forall pre a b suf, In (pre ++ a :: b :: suf) xs ->
     In (pre ++ fst (swap_replicas a b) :: snd (swap_replicas a b) :: suf) xs) ->
  wstat xs ladder_weight ladder_step.
Proof.
  intros Hnd Hlen HD Hcl.
  apply (wstat_ext_in xs ladder_weight (step_l p_swap swap_replicas)).
  - intros l f Hl. symmetry. apply tempering_step_is_step_l. now apply Hlen.
  - apply (step_l_stationary replica_eqb replica_eqb_ok rp_weight p_swap swap_replicas (fun a b => swap_hyps a b = true)); auto.
    + intros a b Hab. unfold swap_hyps in Hab. rewrite !andb_true_iff in Hab.
      destruct Hab as [[[[[_ HLa] HLb] _] Hba] Hbb]. apply qposb_true in Hba, Hbb.
      split; apply sse_weight_pos; assumption.
    + apply swap_replicas_invol.
    + intros a b Hab. unfold rp_weight. cbn [swap_replicas fst snd rp_ham rp_beta rp_slots].
      now apply p_swap_is_weight_ratio_checked.
Qed.

(* non-vacuity: the two-replica ladder of Proofs/SwapRatio.v (different Hamiltonians and betas) and its exchange *)
Definition ex_ladders : list (list replica) :=
  [[ex_a; ex_b]; [fst (swap_replicas ex_a ex_b); snd (swap_replicas ex_a ex_b)]].

Lemma ex_ladders_ok :
  NoDup ex_ladders
  /\ (forall l, In l ex_ladders -> (1 < length l)%nat)
  /\ (forall l, In l ex_ladders -> pairs_ok (fun a b => swap_hyps a b = true) l /\ pairs_ok (fun a b => swap_hyps a b = true) (tl l))
  /\ (forall pre a b suf, In (pre ++ a :: b :: suf) ex_ladders ->
        In (pre ++ fst (swap_replicas a b) :: snd (swap_replicas a b) :: suf) ex_ladders).
Proof.
  split; [|split; [|split]].
  - constructor; [|constructor; [intros []|constructor]].
    intros [E|[]]. assert (Hs : rp_state ex_a = rp_state (fst (swap_replicas ex_a ex_b))) by (inversion E as [[E1 E2]]; now rewrite <- E1).
    vm_compute in Hs. discriminate.
  - intros l [<-|[<-|[]]]; cbn; lia.
  - intros l [<-|[<-|[]]]; cbn [pairs_ok tl]; repeat split; vm_compute; reflexivity.
  - intros pre a b suf Hin.
    assert (Hshape : pre = [] /\ suf = []).
    { destruct Hin as [E|[E|[]]]; apply (f_equal (@length _)) in E; rewrite app_length in E; cbn [length] in E;
        destruct pre as [|? pre], suf as [|? suf]; cbn [length] in E; try lia; auto. }
    destruct Hshape as [-> ->]. cbn [app] in *.
    destruct Hin as [E|[E|[]]]; inversion E; subst; cbn [app].
    + right. left. reflexivity.
    + left. vm_compute. reflexivity.
Qed.
