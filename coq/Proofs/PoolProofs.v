(* Pools: calls that are individually balanced within capacity can be repeated and interleaved
   for ever without exhaustion, and leave the occupancy unchanged (C18). *)
From Coq Require Import List Arith Bool Lia.
From QmcV Require Import Model.Sse Model.Pool Proofs.HamProofs.
Import ListNotations.

Lemma run_app p a b : run p (a ++ b) = match run p a with Some q => run q b | None => None end.
Proof.
  revert p. induction a as [|e a IH]; intros p; cbn [app run]; [reflexivity|].
  destruct e as [t|t]; [destruct (nth t p 0)|]; auto.
Qed.

Lemma list_beq_nat_eq a b : list_beq Nat.eqb a b = true -> a = b.
Proof.
  revert b. induction a as [|x a IH]; intros [|y b] H; cbn [list_beq] in H; try discriminate; [reflexivity|].
  apply andb_true_iff in H. destruct H as [H1 H2]. apply Nat.eqb_eq in H1. f_equal; auto.
Qed.

Lemma call_ok_spec caps tr : call_ok caps tr = true -> run caps tr = Some caps.
Proof.
  unfold call_ok. destruct (run caps tr) as [p|]; [|discriminate].
  intros H. apply list_beq_nat_eq in H. now subst.
Qed.

(* any sequence of calls, however long: no exhaustion, occupancy afterwards = initial occupancy *)
Theorem calls_never_exhaust caps (calls : list (list ev)) :
  Forall (fun tr => call_ok caps tr = true) calls -> run caps (concat calls) = Some caps.
Proof.
  induction 1 as [|tr calls Hok _ IH]; cbn [concat]; [reflexivity|].
  rewrite run_app, (call_ok_spec caps tr Hok). exact IH.
Qed.

Lemma in_firstn {A} (l : list A) k x : In x (firstn k l) -> In x l.
Proof.
  revert k. induction l as [|h t IH]; intros k H; destruct k; cbn in H; try contradiction.
  destruct H as [->|H]; [now left|right; eapply IH; eauto].
Qed.

(* every intermediate point of such a sequence is at a call boundary with full pools *)
Theorem calls_prefix_full caps (calls : list (list ev)) k :
  Forall (fun tr => call_ok caps tr = true) calls -> run caps (concat (firstn k calls)) = Some caps.
Proof.
  intros H. apply calls_never_exhaust. rewrite Forall_forall in *. intros tr Hin.
  apply H. eapply in_firstn; eauto.
Qed.

(* ---- occupancy accounting and the converse: a leak is fatal after finitely many calls ---- *)

Fixpoint gets (t : nat) (tr : list ev) : nat :=
  match tr with
  | [] => 0
  | Get u :: r => (if Nat.eqb u t then 1 else 0) + gets t r
  | Ret _ :: r => gets t r
  end.
Fixpoint rets (t : nat) (tr : list ev) : nat :=
  match tr with
  | [] => 0
  | Ret u :: r => (if Nat.eqb u t then 1 else 0) + rets t r
  | Get _ :: r => rets t r
  end.

Lemma pool_set_nth_length (l : pool) i x : length (set_nth l i x) = length l.
Proof. revert i; induction l as [|h l IH]; intros [|i]; cbn; auto. Qed.
Lemma pool_nth_set_eq (l : pool) i x : i < length l -> nth i (set_nth l i x) 0 = x.
Proof. revert i; induction l as [|h l IH]; intros [|i] H; cbn in *; try lia; auto. apply IH; lia. Qed.
Lemma pool_nth_set_neq (l : pool) i j x : i <> j -> nth j (set_nth l i x) 0 = nth j l 0.
Proof. revert i j; induction l as [|h l IH]; intros [|i] [|j] H; cbn; auto; try congruence. Qed.

(* occupancy of pool t after any trace that does not panic = initial occupancy - borrowed + returned,
   and the number of pools never changes *)
Theorem occupancy_accounting t : forall tr p p',
  t < length p -> run p tr = Some p' ->
  nth t p' 0 + gets t tr = nth t p 0 + rets t tr /\ length p' = length p.
Proof.
  induction tr as [|e tr IH]; intros p p' Ht H; cbn [run gets rets] in *.
  - inversion H; subst. split; reflexivity.
  - destruct e as [u|u].
    + destruct (nth u p 0) as [|k] eqn:E; [discriminate|].
      destruct (IH (set_nth p u k) p') as [A B]; [rewrite pool_set_nth_length; exact Ht|exact H|].
      rewrite pool_set_nth_length in B. split; [|exact B].
      destruct (Nat.eqb_spec u t) as [->|N].
      * rewrite pool_nth_set_eq in A by exact Ht. lia.
      * rewrite pool_nth_set_neq in A by exact N. lia.
    + destruct (IH (set_nth p u (S (nth u p 0))) p') as [A B]; [rewrite pool_set_nth_length; exact Ht|exact H|].
      rewrite pool_set_nth_length in B. split; [|exact B].
      destruct (Nat.eqb_spec u t) as [->|N].
      * rewrite pool_nth_set_eq in A by exact Ht. lia.
      * rewrite pool_nth_set_neq in A by exact N. lia.
Qed.

Lemma gets_app t a b : gets t (a ++ b) = gets t a + gets t b.
Proof. induction a as [|[u|u] a IH]; cbn [app gets]; lia. Qed.
Lemma rets_app t a b : rets t (a ++ b) = rets t a + rets t b.
Proof. induction a as [|[u|u] a IH]; cbn [app rets]; lia. Qed.
Lemma gets_repeat t tr n : gets t (concat (repeat tr n)) = n * gets t tr.
Proof. induction n as [|n IH]; cbn [repeat concat]; [reflexivity|]. rewrite gets_app, IH. lia. Qed.
Lemma rets_repeat t tr n : rets t (concat (repeat tr n)) = n * rets t tr.
Proof. induction n as [|n IH]; cbn [repeat concat]; [reflexivity|]. rewrite rets_app, IH. lia. Qed.

(* a balanced call borrows and returns the same number of buffers of every pool *)
Theorem call_ok_balanced caps tr t : t < length caps -> call_ok caps tr = true -> gets t tr = rets t tr.
Proof.
  intros Ht H. apply call_ok_spec in H. destruct (occupancy_accounting t tr caps caps Ht H) as [A _]. lia.
Qed.

(* the converse of "no exhaustion ever": a call that keeps even ONE buffer of pool t (on whatever
   branch) cannot be repeated more than cap(t) times — the (cap+1)-th repetition at the latest panics
   with "Out of instances" *)
Theorem leak_exhausts caps tr t n :
  t < length caps -> gets t tr = S (rets t tr) -> nth t caps 0 < n ->
  run caps (concat (repeat tr n)) = None.
Proof.
  intros Ht Hleak Hn. destruct (run caps (concat (repeat tr n))) as [p'|] eqn:E; [|reflexivity]. exfalso.
  destruct (occupancy_accounting t _ caps p' Ht E) as [A _].
  rewrite gets_repeat, rets_repeat, Hleak, Nat.mul_succ_r in A. lia.
Qed.

(* ... and until then nothing is visible: the leak only lowers the occupancy by one per call *)
Theorem leak_is_silent_until_then caps tr t n p' :
  t < length caps -> gets t tr = S (rets t tr) -> run caps (concat (repeat tr n)) = Some p' ->
  nth t p' 0 + n = nth t caps 0.
Proof.
  intros Ht Hleak E. destruct (occupancy_accounting t _ caps p' Ht E) as [A _].
  rewrite gets_repeat, rets_repeat, Hleak, Nat.mul_succ_r in A. lia.
Qed.
