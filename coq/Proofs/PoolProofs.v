(* Pools: calls that are individually balanced within capacity can be repeated and interleaved
   for ever without exhaustion, and leave the occupancy unchanged (C18). *)
From Coq Require Import List Arith Bool Lia.
From QmcV Require Import Model.Sse Model.Pool Proofs.HamProofs.
Import ListNotations.

Lemma run_app p a b : run p (a ++ b) = match run p a with Some q => run q b | None => None end.
Proof.
  revert p. induction a as [|e a IH]; intros p; cbn [app run]; [reflexivity|].
  destruct e as [t|t]; [destruct (nth t p 0)|]; auto.
Qed.

Lemma list_beq_nat_eq a b : list_beq Nat.eqb a b = true -> a = b.
Proof.
  revert b. induction a as [|x a IH]; intros [|y b] H; cbn [list_beq] in H; try discriminate; [reflexivity|].
  apply andb_true_iff in H. destruct H as [H1 H2]. apply Nat.eqb_eq in H1. f_equal; auto.
Qed.

Lemma call_ok_spec caps tr : call_ok caps tr = true -> run caps tr = Some caps.
Proof.
  unfold call_ok. destruct (run caps tr) as [p|]; [|discriminate].
  intros H. apply list_beq_nat_eq in H. now subst.
Qed.

(* any sequence of calls, however long: no exhaustion, occupancy afterwards = initial occupancy *)
Theorem calls_never_exhaust caps (calls : list (list ev)) :
  Forall (fun tr => call_ok caps tr = true) calls -> run caps (concat calls) = Some caps.
Proof.
  induction 1 as [|tr calls Hok _ IH]; cbn [concat]; [reflexivity|].
  rewrite run_app, (call_ok_spec caps tr Hok). exact IH.
Qed.

Lemma in_firstn {A} (l : list A) k x : In x (firstn k l) -> In x l.
Proof.
  revert k. induction l as [|h t IH]; intros k H; destruct k; cbn in H; try contradiction.
  destruct H as [->|H]; [now left|right; eapply IH; eauto].
Qed.

(* every intermediate point of such a sequence is at a call boundary with full pools *)
Theorem calls_prefix_full caps (calls : list (list ev)) k :
  Forall (fun tr => call_ok caps tr = true) calls -> run caps (concat (firstn k calls)) = Some caps.
Proof.
  intros H. apply calls_never_exhaust. rewrite Forall_forall in *. intros tr Hin.
  apply H. eapply in_firstn; eauto.
Qed.
