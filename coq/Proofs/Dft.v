(* The DFT route to the circular autocorrelation, over any field with a primitive T-th root of unity
   (Mathematical Components 1.15; axiom free).  Justifies the FFT algorithm used by fft_autocorrelation
   for every series length. *)
(* The DFT route to the circular autocorrelation, over an arbitrary field
   with a primitive T-th root of unity.  Coq 8.16.1 + mathcomp 1.15.0. *)
From mathcomp Require Import all_ssreflect all_algebra.

Set Implicit Arguments.
Unset Strict Implicit.
Unset Printing Implicit Defensive.

Import GRing.Theory.
Local Open Scope ring_scope.

Section DFT.

Variables (F : fieldType) (T : nat) (w : F).
Hypothesis Tpos : (0 < T)%N.
Hypothesis prim_w : T.-primitive_root w.

(* ------------------------------------------------------------------ *)
(* Index arithmetic in 'I_T                                            *)
(* ------------------------------------------------------------------ *)

(* s + t mod T *)
Definition cshift (s t : 'I_T) : 'I_T := Ordinal (ltn_pmod (s + t) Tpos).
(* s - t mod T, written with naturals only: s + (T - t) mod T *)
Definition cunshift (s t : 'I_T) : 'I_T := Ordinal (ltn_pmod (s + (T - t)) Tpos).

Lemma cshiftK t : cancel (cshift^~ t) (cunshift^~ t).
Proof.
move=> s; apply: val_inj => /=.
rewrite modnDml -addnA subnKC; last exact: ltnW.
by rewrite modnDr modn_small.
Qed.

Lemma cunshiftK t : cancel (cunshift^~ t) (cshift^~ t).
Proof.
move=> s; apply: val_inj => /=.
rewrite modnDml -addnA subnK; last exact: ltnW.
by rewrite modnDr modn_small.
Qed.

(* ------------------------------------------------------------------ *)
(* Powers of the root                                                  *)
(* ------------------------------------------------------------------ *)

Lemma w_unit : w \is a GRing.unit.
Proof. by rewrite -(unitrX_pos _ Tpos) (prim_expr_order prim_w) unitr1. Qed.

Lemma w_expT_mul n : w ^+ (n * T) = 1.
Proof. by rewrite mulnC exprM (prim_expr_order prim_w) expr1n. Qed.

(* a negative power is a positive one: w^-(k*s) = w^(k*(T-s)) for s <= T *)
Lemma w_negexp k s : (s <= T)%N -> w ^- (k * s) = w ^+ (k * (T - s)).
Proof.
move=> le_sT; apply: (mulrI (unitrX (k * s) w_unit)).
rewrite divrr ?unitrX ?w_unit // -exprD -mulnDr subnKC //.
by rewrite w_expT_mul.
Qed.

(* ------------------------------------------------------------------ *)
(* Orthogonality of the characters                                     *)
(* ------------------------------------------------------------------ *)

Lemma char_sum m :
  \sum_(k < T) w ^+ (k * m) = if (T %| m)%N then T%:R else 0.
Proof.
case: ifP => [dv | ndv].
- rewrite (eq_bigr (fun=> 1)) => [|k _]; first by rewrite sumr_const card_ord.
  rewrite mulnC exprM.
  have /eqP -> : w ^+ m == 1 by rewrite -(prim_order_dvd prim_w).
  by rewrite expr1n.
- have ne : w ^+ m - 1 != 0 by rewrite subr_eq0 -(prim_order_dvd prim_w) ndv.
  apply: (mulfI ne); rewrite mulr0.
  rewrite (eq_bigr (fun k : 'I_T => (w ^+ m) ^+ k)) => [|k _]; last first.
    by rewrite mulnC exprM.
  by rewrite -subrX1 -exprM w_expT_mul subrr.
Qed.

(* the divisibility condition singles out exactly one index *)
Lemma dvd_cshift (u t s : 'I_T) :
  (T %| u + t + (T - s))%N = (s == cshift u t).
Proof.
rewrite addnBA; last exact: ltnW.
rewrite addnC [in LHS]addnC.
rewrite -(eqn_mod_dvd T) ?modnDr; last first.
  by apply: leq_trans (leq_addl _ _); exact: ltnW.
by rewrite [X in _ == X](modn_small (ltn_ord s)) eq_sym.
Qed.

(* ------------------------------------------------------------------ *)
(* The transforms                                                      *)
(* ------------------------------------------------------------------ *)

Variable x : 'I_T -> F.

(* forward transform  X k = \sum_s x s * w^-(k*s) *)
Definition dft (k : 'I_T) : F := \sum_(s < T) x s * w ^- (k * s).

(* "conjugate" transform  X' k = \sum_u x u * w^+(k*u)  (= X_{-k}) *)
Definition dft_conj (k : 'I_T) : F := \sum_(u < T) x u * w ^+ (k * u).

(* unnormalised inverse transform of the pointwise product *)
Definition idft_prod (t : 'I_T) : F :=
  \sum_(k < T) dft k * dft_conj k * w ^+ (k * t).

(* circular autocorrelation, with s + t mod T *)
Definition autocorr (t : 'I_T) : F := \sum_(s < T) x s * x (cshift s t).

(* symmetric variant, with s - t mod T *)
Definition autocorr_sub (t : 'I_T) : F := \sum_(s < T) x s * x (cunshift s t).

Lemma autocorr_sym t : autocorr_sub t = autocorr t.
Proof.
rewrite /autocorr_sub /autocorr.
rewrite (reindex (cshift^~ t)) /=; last first.
  by exists (cunshift^~ t) => s _; [apply: cshiftK | apply: cunshiftK].
by apply: eq_bigr => s _; rewrite cshiftK mulrC.
Qed.

(* one summand of y t, after all sums are pulled out *)
Lemma term_exp (k s u t : 'I_T) :
  x s * w ^- (k * s) * (x u * w ^+ (k * u)) * w ^+ (k * t)
  = x s * x u * w ^+ (k * (u + t + (T - s))).
Proof.
rewrite (w_negexp k (ltnW (ltn_ord s))).
rewrite !mulnDr !exprD.
rewrite -!mulrA; congr (_ * _).
rewrite mulrCA; congr (_ * _).
by rewrite mulrC mulrA.
Qed.

Lemma idft_prod_expand t :
  idft_prod t =
  \sum_(u < T) \sum_(s < T) x s * x u * \sum_(k < T) w ^+ (k * (u + t + (T - s))).
Proof.
rewrite /idft_prod /dft /dft_conj.
under eq_bigr => k _.
  rewrite big_distrl /= big_distrl /=.
  under eq_bigr => s _.
    rewrite big_distrr /= big_distrl /=.
    under eq_bigr => u _ do rewrite term_exp.
    over.
  over.
rewrite exchange_big /=.
under eq_bigr => s _ do rewrite exchange_big /=.
rewrite exchange_big /=.
apply: eq_bigr => u _; apply: eq_bigr => s _.
by rewrite big_distrr.
Qed.

(* ------------------------------------------------------------------ *)
(* Main theorem                                                        *)
(* ------------------------------------------------------------------ *)

Theorem dft_autocorrelation (t : 'I_T) :
  \sum_(k < T) (\sum_(s < T) x s * w ^- (k * s))
             * (\sum_(u < T) x u * w ^+ (k * u)) * w ^+ (k * t)
  = T%:R * \sum_(s < T) x s * x (Ordinal (ltn_pmod (s + t) Tpos)).
Proof.
rewrite -[LHS]/(idft_prod t) idft_prod_expand mulr_sumr.
apply: eq_bigr => u _.
under eq_bigr => s _ do rewrite char_sum dvd_cshift.
rewrite (bigD1 (cshift u t)) //= eqxx big1 ?addr0; last first.
  by move=> s /negPf ->; rewrite mulr0.
by rewrite mulrC [x _ * _]mulrC.
Qed.

Corollary dft_autocorrelation_defs t : idft_prod t = T%:R * autocorr t.
Proof. exact: dft_autocorrelation. Qed.

Corollary dft_autocorrelation_sub t : idft_prod t = T%:R * autocorr_sub t.
Proof. by rewrite autocorr_sym; exact: dft_autocorrelation. Qed.

End DFT.

Check dft_autocorrelation.
Print Assumptions dft_autocorrelation.
Print Assumptions dft_autocorrelation_sub.
