(* Cluster update: skeleton preservation, identical re-decomposition, and clusters carrying a
   symmetry-breaking operator are never flipped (C09). *)
From Coq Require Import List QArith ZArith NArith Bool Arith Lia Lqa.
From QmcV Require Import Model.Prog Model.Sse Model.Nav Model.Cluster Proofs.ProgLemmas Proofs.HamProofs
     Proofs.DiagonalProofs Proofs.StepProofs Proofs.WorldLine.
Import ListNotations.
Local Open Scope nat_scope.

(* ---------------- skeleton ---------------- *)
Lemma set_nth_nth_error {A} (l : list A) p x : nth_error l p = Some x -> set_nth l p x = l.
Proof.
  revert p. induction l as [|h t IH]; intros p H; destruct p; cbn in *; try discriminate.
  - now inversion H.
  - f_equal. now apply IH.
Qed.

Lemma map_set_nth {A B} (f : A -> B) (l : list A) p x : map f (set_nth l p x) = set_nth (map f l) p (f x).
Proof.
  revert p. induction l as [|h t IH]; intros p; cbn; [reflexivity|]. destruct p; cbn; [reflexivity|]. now rewrite IH.
Qed.

Lemma get_op_nth_error (sl : slots) p o : get_op sl p = Some o -> nth_error sl p = Some (Some o).
Proof.
  unfold get_op, g_get. destruct (nth_error sl p) as [[x|]|]; intros H; inversion H; reflexivity.
Qed.

Lemma skeleton_set_same sl p o o2 :
  get_op sl p = Some o -> skel_of o2 = skel_of o -> skeleton (set_nth sl p (Some o2)) = skeleton sl.
Proof.
  intros Hg Hs. unfold skeleton. rewrite map_set_nth. cbn [option_map]. rewrite Hs.
  apply set_nth_nth_error. rewrite nth_error_map. apply get_op_nth_error in Hg. now rewrite Hg.
Qed.

Lemma apply_flips_unfold sl st b flips :
  apply_flips sl st b flips = fold_left (flip_step sl flips) (combine (seq 0 (length b)) b) (sl, st).
Proof. reflexivity. Qed.

Lemma flip_step_skeleton sl flips acc pab :
  skeleton (fst (flip_step sl flips acc pab)) = skeleton (fst acc).
Proof.
  destruct acc as [sl' st']. destruct pab as [p [[a|] [c|]]]; cbn [flip_step fst]; try reflexivity.
  destruct (get_op sl' p) as [o|] eqn:Hg; cbn [fst]; [|reflexivity].
  apply (skeleton_set_same sl' p o); [exact Hg|].
  destruct (nth a flips false), (nth c flips false); reflexivity.
Qed.

(* a cluster update leaves number, positions, bonds, variables and constant flags unchanged *)
Lemma fold_flip_skeleton sl flips l : forall acc,
  skeleton (fst (fold_left (flip_step sl flips) l acc)) = skeleton (fst acc).
Proof.
  induction l as [|x l IH]; intros acc; cbn [fold_left]; [reflexivity|].
  rewrite IH. apply flip_step_skeleton.
Qed.

Theorem apply_flips_skeleton sl st b flips : skeleton (fst (apply_flips sl st b flips)) = skeleton sl.
Proof. rewrite apply_flips_unfold, fold_flip_skeleton. reflexivity. Qed.

Lemma skeleton_count sl sl' : skeleton sl = skeleton sl' -> count_ops sl = count_ops sl'.
Proof.
  unfold skeleton, count_ops. revert sl'. induction sl as [|o sl IH]; intros [|o' sl'] H; cbn in *; try discriminate; [reflexivity|].
  inversion H as [[Ho Hr]]. destruct o, o'; cbn in *; try discriminate; cbn; erewrite IH; eauto.
Qed.

(* decomposing the result finds exactly the same clusters (hence the same number) *)
Theorem redecompose_same sl st b flips : decompose (fst (apply_flips sl st b flips)) = decompose sl.
Proof. unfold decompose. now rewrite apply_flips_skeleton. Qed.

Theorem apply_flips_count sl st b flips : count_ops (fst (apply_flips sl st b flips)) = count_ops sl.
Proof. apply skeleton_count. apply apply_flips_skeleton. Qed.

(* ---------------- weighted flips: probability-zero clusters ---------------- *)
Open Scope Q_scope.

(* every outcome of the draws extends the already drawn prefix *)
Lemma draw_flips_prefix probs : forall acc p fl,
  In (p, fl) (denote (draw_flips probs acc (fun f => Ret f))) ->
  exists tail, fl = rev acc ++ tail /\ length tail = length probs.
Proof.
  induction probs as [|q r IH]; intros acc p fl Hin; cbn [draw_flips] in Hin.
  - apply support_ret in Hin. subst. exists []. split; [now rewrite app_nil_r|reflexivity].
  - cbn [denote] in Hin. apply in_app_or in Hin.
    destruct Hin as [Hin|Hin]; apply in_dscale_inv in Hin; destruct Hin as [p' Hin];
      apply IH in Hin; destruct Hin as [tail [-> Hl]]; cbn [rev]; rewrite <- app_assoc; cbn [app];
      eexists; (split; [reflexivity|]); cbn [length]; lia.
Qed.

Lemma mass_zero_if_never {A} (P : A -> bool) (d : dist A) :
  (forall p a, In (p, a) d -> P a = false) -> mass P d == 0.
Proof.
  induction d as [|[p a] d IH]; intros H; [reflexivity|].
  rewrite mass_cons, IH by (intros; eapply H; right; eauto).
  rewrite (H p a) by now left. lra.
Qed.

(* the j-th cluster still to be drawn is flipped with probability 0 when its probability is <= 0 *)
Lemma draw_flips_zero probs : forall acc j,
  (j < length probs)%nat -> nth j probs 1 <= 0 ->
  mass (fun fl : list bool => nth (length acc + j) fl false) (denote (draw_flips probs acc (fun f => Ret f))) == 0.
Proof.
  induction probs as [|q r IH]; intros acc j Hj Hq; cbn [length] in Hj; [lia|].
  cbn [draw_flips]. rewrite mass_bern. destruct j as [|j].
  - cbn [nth] in Hq.
    assert (Hc : qclip q == 0).
    { unfold qclip. replace (Qle_bool q 0) with true; [reflexivity|]. symmetry. now apply Qle_bool_iff. }
    rewrite Hc.
    rewrite (mass_zero_if_never _ (denote (draw_flips r (false :: acc) (fun f => Ret f)))).
    + lra.
    + intros p fl Hin. apply draw_flips_prefix in Hin. destruct Hin as [tail [-> _]].
      cbn [rev]. rewrite <- app_assoc. rewrite Nat.add_0_r. rewrite app_nth2 by (rewrite rev_length; lia).
      rewrite rev_length, Nat.sub_diag. reflexivity.
  - cbn [nth] in Hq.
    pose proof (IH (true :: acc) j ltac:(lia) Hq) as H1.
    pose proof (IH (false :: acc) j ltac:(lia) Hq) as H2.
    cbn [length] in H1, H2.
    replace (length acc + S j)%nat with (S (length acc) + j)%nat by lia.
    rewrite H1, H2. lra.
Qed.

(* once a cluster's weight has been multiplied by 0 it stays 0 *)
Lemma weight_step_keeps_zero sl wf acc pab a :
  nth a acc 1 == 0 -> nth a (weight_step sl wf acc pab) 1 == 0.
Proof.
  intros Hz. destruct pab as [p [[x|] [y|]]]; cbn [weight_step]; try exact Hz.
  destruct (get_op sl p) as [o|]; [|exact Hz].
  destruct (Nat.eqb x y); [|exact Hz].
  rewrite nth_set_nth. destruct (Nat.eqb x a && Nat.ltb x (length acc))%bool eqn:E; [|exact Hz].
  apply andb_true_iff in E. destruct E as [E _]. apply Nat.eqb_eq in E. subst x. rewrite Hz. ring.
Qed.

Lemma weight_fold_keeps_zero sl wf l : forall acc a,
  nth a acc 1 == 0 -> nth a (fold_left (weight_step sl wf) l acc) 1 == 0.
Proof.
  induction l as [|x l IH]; intros acc a Hz; cbn [fold_left]; [exact Hz|].
  apply IH. now apply weight_step_keeps_zero.
Qed.

Lemma weight_step_length sl wf acc pab : length (weight_step sl wf acc pab) = length acc.
Proof.
  destruct pab as [p [[x|] [y|]]]; cbn [weight_step]; try reflexivity.
  destruct (get_op sl p); [|reflexivity]. destruct (Nat.eqb x y); [|reflexivity]. apply set_nth_length.
Qed.

Lemma weight_fold_length sl wf l : forall acc, length (fold_left (weight_step sl wf) l acc) = length acc.
Proof.
  induction l as [|x l IH]; intros acc; cbn [fold_left]; [reflexivity|]. rewrite IH. apply weight_step_length.
Qed.

Lemma skipn_cons_nth {A} (l : list A) p d : (p < length l)%nat -> skipn p l = nth p l d :: skipn (S p) l.
Proof.
  revert p. induction l as [|h t IH]; intros p Hp; cbn in Hp; [lia|].
  destruct p; cbn [skipn nth]; [reflexivity|]. apply IH. lia.
Qed.

(* a cluster containing an operator whose flip ratio is 0 gets total weight 0 *)
Theorem cluster_weight_zero sl b ncl wf p a o :
  (p < length b)%nat -> bget b p = (Some a, Some a) -> get_op sl p = Some o -> wf o == 0 -> (a < ncl)%nat ->
  nth a (cluster_weights sl b ncl wf) 1 == 0.
Proof.
  intros Hp Hb Hg Hw Ha. unfold cluster_weights.
  assert (Hsplit : exists l1 l2, combine (seq 0 (length b)) b = l1 ++ (p, bget b p) :: l2).
  { exists (firstn p (combine (seq 0 (length b)) b)), (skipn (S p) (combine (seq 0 (length b)) b)).
    rewrite <- (firstn_skipn p (combine (seq 0 (length b)) b)) at 1. f_equal.
    assert (Hlen : (p < length (combine (seq 0 (length b)) b))%nat) by (rewrite combine_length, seq_length; lia).
    rewrite (skipn_cons_nth _ p (0%nat, (None, None))); [|exact Hlen].
    f_equal. rewrite combine_nth by (now rewrite seq_length). rewrite seq_nth by exact Hp. reflexivity. }
  destruct Hsplit as (l1 & l2 & ->). rewrite fold_left_app. cbn [fold_left].
  apply weight_fold_keeps_zero.
  set (acc1 := fold_left (weight_step sl wf) l1 (repeat 1 ncl)).
  assert (Hl : length acc1 = ncl) by (unfold acc1; rewrite weight_fold_length, repeat_length; reflexivity).
  cbn [weight_step]. rewrite Hb, Hg, Nat.eqb_refl. rewrite nth_set_nth.
  replace (Nat.eqb a a && Nat.ltb a (length acc1))%bool with true.
  - rewrite Hw. ring.
  - symmetry. apply andb_true_iff. split; [apply Nat.eqb_refl|apply Nat.ltb_lt; lia].
Qed.
