(* Snapshot / restore round trip in the field-mode model (C14). *)
From Coq Require Import List String NArith Bool Lia.
From QmcV Require Import Generated.SerdeFields Model.Serde.
Import ListNotations.

Lemma all_empty_repeat (b : list (list N)) :
  forallb (fun x => match x with [] => true | _ => false end) b = true -> repeat [] (List.length b) = b.
Proof.
  induction b as [|x b IH]; cbn [forallb List.length repeat]; [reflexivity|].
  intros H. apply andb_true_iff in H. destruct H as [Hx Hb]. destruct x; [|discriminate].
  now rewrite IH.
Qed.

Lemma field_roundtrip m v : field_ok m v = true -> restore_field (snap_field m v) = v.
Proof.
  destruct m, v; cbn; intros H; try discriminate; try reflexivity.
  now rewrite all_empty_repeat.
Qed.

(* a state all of whose fields are fully serialised or empty count-only pools is restored exactly *)
Theorem roundtrip : forall modes st,
  List.length modes = List.length st ->
  forallb (fun '(m, v) => field_ok m v) (combine modes st) = true ->
  restore (snapshot modes st) = st.
Proof.
  induction modes as [|m modes IH]; intros [|v st] Hl H; cbn in Hl; try discriminate; [reflexivity|].
  cbn [combine forallb] in H. apply andb_true_iff in H. destruct H as [Hv Hr].
  unfold restore, snapshot in *. cbn [combine map]. rewrite (field_roundtrip m v Hv). f_equal.
  apply IH; [lia|exact Hr].
Qed.

(* a skipped field is not restored *)
Lemma skipped_field_lost d : d <> [] -> restore_field (snap_field FSkipped (VData d)) <> VData d.
Proof. intros H E. cbn in E. inversion E. congruence. Qed.

(* ---- repeated cycles, pool capacity, and the necessity of each side condition ---- *)

(* one snapshot-restore cycle *)
Definition cycle (modes : list fmode) (st : list fval) : list fval := restore (snapshot modes st).

(* any number of snapshot-restore cycles gives back the state *)
Theorem repeated_cycles : forall n modes st,
  List.length modes = List.length st ->
  forallb (fun '(m, v) => field_ok m v) (combine modes st) = true ->
  Nat.iter n (cycle modes) st = st.
Proof.
  induction n as [|n IH]; intros modes st Hl H; [reflexivity|].
  change (cycle modes (Nat.iter n (cycle modes) st) = st).
  rewrite IH by assumption. unfold cycle. now apply roundtrip.
Qed.

(* the number of fields survives a cycle whatever the fields hold *)
Lemma cycle_length modes st : List.length modes = List.length st -> List.length (cycle modes st) = List.length st.
Proof.
  intros Hl. unfold cycle, restore, snapshot. rewrite !map_length, combine_length. lia.
Qed.

(* pooled scratch capacity: a count-only pool comes back as a pool of exactly as many buffers, all
   empty — with no condition on what the buffers held when the snapshot was taken *)
Theorem pool_capacity_restored : forall b,
  exists b', restore_field (snap_field FCountOnly (VPool b)) = VPool b'
             /\ List.length b' = List.length b
             /\ forallb (fun x => match x with [] => true | _ => false end) b' = true.
Proof.
  intros b. exists (repeat [] (List.length b)). cbn. split; [reflexivity|]. split; [apply repeat_length|].
  induction b as [|x b IH]; cbn; [reflexivity|exact IH].
Qed.

(* a second cycle never changes anything any more: one cycle already reaches a fixed point of the
   count-only and full fields (a restored object snapshots to the same bytes) *)
Lemma field_cycle_idempotent m v : m = FFull \/ m = FCountOnly ->
  restore_field (snap_field m (restore_field (snap_field m v))) = restore_field (snap_field m v).
Proof.
  intros [-> | ->]; destruct v; cbn; try reflexivity; now rewrite repeat_length.
Qed.

(* necessity: a count-only pool that holds a non-empty buffer at the snapshot point is NOT restored
   (this is why "returned, emptied" of C18 is a premise of the round trip) *)
Theorem dirty_pool_not_restored : forall b,
  forallb (fun x => match x with [] => true | _ => false end) b = false ->
  restore_field (snap_field FCountOnly (VPool b)) <> VPool b.
Proof.
  intros b H E. cbn in E. inversion E as [E']. clear E.
  assert (F : forallb (fun x : list N => match x with [] => true | _ => false end) (repeat [] (List.length b)) = true).
  { clear. induction b as [|x b IH]; cbn; [reflexivity|exact IH]. }
  rewrite E' in F. congruence.
Qed.

(* necessity: the only field mode under which every value survives is "serialised in full" *)
Theorem only_full_mode_is_lossless : forall m,
  (forall v, restore_field (snap_field m v) = v) <-> m = FFull.
Proof.
  intros m. split.
  - intros H. destruct m; [reflexivity| | |].
    + specialize (H (VData [1%N])). cbn in H. discriminate.
    + specialize (H (VData [1%N])). cbn in H. discriminate.
    + specialize (H (VData [1%N])). cbn in H. discriminate.
  - intros ->. intros v. destruct v; reflexivity.
Qed.

(* exact characterisation of the round trip, field by field: for the modes the source uses, a field
   survives iff [field_ok] *)
Theorem field_roundtrip_iff : forall m v, m = FFull \/ m = FCountOnly ->
  (restore_field (snap_field m v) = v <-> field_ok m v = true).
Proof.
  intros m v Hm. split; [|apply field_roundtrip].
  destruct Hm as [-> | ->]; destruct v as [d|b]; cbn [field_ok]; intros E; try reflexivity.
  - cbn in E. discriminate.
  - destruct (forallb (fun x : list N => match x with [] => true | _ => false end) b) eqn:F; [reflexivity|].
    exfalso. now apply (dirty_pool_not_restored b F).
Qed.
