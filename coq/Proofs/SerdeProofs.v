(* Snapshot / restore round trip in the field-mode model (C14). *)
From Coq Require Import List String NArith Bool Lia.
From QmcV Require Import Generated.SerdeFields Model.Serde.
Import ListNotations.

Lemma all_empty_repeat (b : list (list N)) :
  forallb (fun x => match x with [] => true | _ => false end) b = true -> repeat [] (List.length b) = b.
Proof.
  induction b as [|x b IH]; cbn [forallb List.length repeat]; [reflexivity|].
  intros H. apply andb_true_iff in H. destruct H as [Hx Hb]. destruct x; [|discriminate].
  now rewrite IH.
Qed.

Lemma field_roundtrip m v : field_ok m v = true -> restore_field (snap_field m v) = v.
Proof.
  destruct m, v; cbn; intros H; try discriminate; try reflexivity.
  now rewrite all_empty_repeat.
Qed.

(* a state all of whose fields are fully serialised or empty count-only pools is restored exactly *)
Theorem roundtrip : forall modes st,
  List.length modes = List.length st ->
  forallb (fun '(m, v) => field_ok m v) (combine modes st) = true ->
  restore (snapshot modes st) = st.
Proof.
  induction modes as [|m modes IH]; intros [|v st] Hl H; cbn in Hl; try discriminate; [reflexivity|].
  cbn [combine forallb] in H. apply andb_true_iff in H. destruct H as [Hv Hr].
  unfold restore, snapshot in *. cbn [combine map]. rewrite (field_roundtrip m v Hv). f_equal.
  apply IH; [lia|exact Hr].
Qed.

(* a skipped field is not restored *)
Lemma skipped_field_lost d : d <> [] -> restore_field (snap_field FSkipped (VData d)) <> VData d.
Proof. intros H E. cbn in E. inversion E. congruence. Qed.
