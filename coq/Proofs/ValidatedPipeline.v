(* Unconditional form of the pipeline theorem (C01, h = 0; C04 symmetric sets).

   The cluster stage is taken with a VALIDATED decomposition: if the labelling produced by [decompose] passes
   the executable validators (links_ok, sides_ok, vars_in_range) the model's cluster update runs, otherwise the
   configuration is left alone.  On every configuration where the validators pass — which the correspondence
   check evaluates for every replayed configuration — this is literally the model's cluster update.  With it,
   the stationarity of the whole pipeline holds on the COMPLETE configuration space of every flip-symmetric
   Hamiltonian table, with no hypothesis about the decomposition algorithm left; the Ising table with h = 0 is
   proved flip-symmetric. *)
From Coq Require Import List QArith ZArith NArith Bool Arith Lia Lqa.
From QmcV Require Import Model.Prog Model.Sse Model.Nav Model.Ham Model.Diagonal Model.Cluster Model.ClusterValid Model.Steps
     Proofs.ProgLemmas Proofs.DiagonalProofs Proofs.SseWeight Proofs.WorldLine Proofs.LegalityProofs Proofs.ClusterProofs
     Proofs.ClusterFlipProofs Proofs.ThermalProofs Proofs.HamProofs Proofs.Expect Proofs.SweepStationary Proofs.GroupKernel
     Proofs.TimestepStationary.
Import ListNotations.
Open Scope Q_scope.

Definition cluster_valid (c : cfg) : bool :=
  Nat.eqb (count_ops (snd c)) 0
  || match decompose (snd c) with
     | Some (b, _) => links_ok (snd c) b && sides_ok (snd c) b && vars_in_range (length (fst c)) (snd c)
     | None => false
     end.

Definition cluster_cfg_v (c : cfg) : prog cfg := if cluster_valid c then cluster_cfg c else Ret c.

(* flip symmetry of a Hamiltonian table on its legal operators: cluster edges (constant single-site terms)
   have a value-independent weight, every other operator keeps its weight when all its values are flipped *)
Definition sym_ham (H : ham) : Prop :=
  forall o, op_legal H o = true -> if is_edge o then edge_free H o else flip_sym H o.

Lemma Qsum_filter_split {B} (g : B -> Q) (v : B -> bool) (l : list B) :
  Qsum (map g l) == Qsum (map g (filter v l)) + Qsum (map g (filter (fun x => negb (v x)) l)).
Proof.
  induction l as [|x l IH]; [cbn; lra|].
  cbn [map filter]. destruct (v x) eqn:E; cbn [negb map Qsum fold_right];
    change (fold_right Qplus 0 (map g l)) with (Qsum (map g l));
    change (fold_right Qplus 0 (map g (filter v l))) with (Qsum (map g (filter v l)));
    change (fold_right Qplus 0 (map g (filter (fun x0 => negb (v x0)) l))) with (Qsum (map g (filter (fun x0 => negb (v x0)) l)));
    rewrite IH; lra.
Qed.

(* a kernel that is the identity outside a sub-space and stationary on it *)
Lemma wstat_split {X} (xs : list X) (Wt : X -> Q) (K : X -> prog X) (v : X -> bool) :
  (forall x f, In x xs -> v x = false -> expect (K x) f == f x) ->
  wstat (filter v xs) Wt K -> wstat xs Wt K.
Proof.
  intros Hid Hv f.
  rewrite (Qsum_filter_split (fun x => Wt x * expect (K x) f) v xs), (Qsum_filter_split (fun x => Wt x * f x) v xs).
  rewrite (Hv f). apply Qplus_comp; [reflexivity|].
  apply Qsum_ext. intros x Hx. apply filter_In in Hx. destruct Hx as [Hx Hvx]. apply negb_true_iff in Hvx.
  rewrite (Hid x f Hx Hvx). reflexivity.
Qed.

Section Validated.
  Variable H : ham.
  Hypothesis Hsym : sym_ham H.
  Variable nv L : nat.
  Let xs := canon H (all_substates nv) L.

  Lemma canon_facts st sl : In (st, sl) xs -> good H (st, sl) = true /\ length sl = L /\ length st = nv.
  Proof.
    intros Hin. destruct (sp_good H L xs (canon_space_ok H (all_substates nv) L) _ Hin) as [Hg HL].
    split; [exact Hg|]. split; [exact HL|].
    unfold xs, canon in Hin. apply nodup_In in Hin. apply filter_In in Hin. destruct Hin as [Hin _].
    apply in_prod_iff in Hin. destruct Hin as [Hs _]. now apply all_substates_length in Hs.
  Qed.

  Lemma in_canon st sl : good H (st, sl) = true -> length sl = L -> length st = nv -> In (st, sl) xs.
  Proof.
    intros Hg HL Hn. unfold xs. rewrite <- HL. apply canon_complete; [|exact Hg].
    apply all_substates_complete. exact Hn.
  Qed.

  Lemma sym_of_legal sl : all_legal H sl = true ->
    (forall o, In (Some o) sl -> is_edge o = false -> flip_sym H o)
    /\ (forall o, In (Some o) sl -> is_edge o = true -> edge_free H o)
    /\ (forall p o, get_op sl p = Some o -> if is_edge o then edge_free H o else flip_sym H o).
  Proof.
    intros Hl. unfold all_legal in Hl. rewrite forallb_forall in Hl.
    assert (Hleg : forall o, In (Some o) sl -> op_legal H o = true) by (intros o Ho; apply (Hl (Some o) Ho)).
    repeat split.
    - intros o Ho He. pose proof (Hsym o (Hleg o Ho)) as Hs. now rewrite He in Hs.
    - intros o Ho He. pose proof (Hsym o (Hleg o Ho)) as Hs. now rewrite He in Hs.
    - intros p o Ho. apply Hsym. apply Hleg. now apply (get_op_in sl p).
  Qed.

  (* what a cluster flip does to a valid good configuration of the space *)
  Lemma flip_of_valid st sl b ncl fl :
    In (st, sl) xs -> Nat.eqb (count_ops sl) 0 = false -> decompose sl = Some (b, ncl) ->
    links_ok sl b = true -> sides_ok sl b = true -> vars_in_range (length st) sl = true ->
    let c' := cl_act (st, sl) fl in
    In c' xs /\ cluster_valid c' = true.
  Proof.
    intros Hin E0 Ed Hl Hs Hv. cbv zeta. destruct (canon_facts st sl Hin) as (Hg & HL & Hn).
    unfold good in Hg. cbn [fst snd] in Hg. apply andb_true_iff in Hg. destruct Hg as [Hwf Hleg].
    destruct (sym_of_legal sl Hleg) as (S1 & S2 & _).
    unfold cl_act. cbn [fst snd]. rewrite E0, Ed.
    pose proof (cluster_flip_wf sl st b fl Hv Hl Hwf) as Hwf'.
    pose proof (cluster_flip_legal_uniform H sl st b fl S1 S2 Hs Hleg) as Hleg'.
    pose proof (apply_flips_state sl st b fl Hl Hwf) as Hst.
    pose proof (apply_flips_closed sl st b fl) as Hc.
    destruct (apply_flips sl st b fl) as [sl' st'] eqn:Ea. cbn [fst snd] in *.
    assert (Hlen_st : length st' = length st) by (rewrite Hst; apply xst_length).
    assert (Hsl' : sl' = flip_zip fl sl b) by (inversion Hc; reflexivity).
    assert (Hlen_sl : length sl' = length sl).
    { assert (E1 : sl' = fst (apply_flips sl st b fl)) by now rewrite Ea. rewrite E1. apply apply_flips_length. }
    split.
    - apply in_canon; [unfold good; cbn [fst snd]; now rewrite Hwf', Hleg'|lia|lia].
    - unfold cluster_valid. cbn [fst snd].
      assert (E1 : sl' = fst (apply_flips sl st b fl)) by now rewrite Ea.
      rewrite E1, apply_flips_count, E0, redecompose_same, Ed, <- E1. cbn [orb].
      rewrite Hsl', links_ok_flip_zip, sides_ok_flip_zip, Hlen_st, vars_in_range_flip_zip, Hl, Hs, Hv. reflexivity.
  Qed.

  Lemma valid_parts st sl : cluster_valid (st, sl) = true -> Nat.eqb (count_ops sl) 0 = false ->
    exists b ncl, decompose sl = Some (b, ncl) /\ links_ok sl b = true /\ sides_ok sl b = true
                  /\ vars_in_range (length st) sl = true.
  Proof.
    unfold cluster_valid. cbn [fst snd]. intros Hv E0. rewrite E0 in Hv. cbn [orb] in Hv.
    destruct (decompose sl) as [[b ncl]|]; [|discriminate].
    rewrite !andb_true_iff in Hv. destruct Hv as [[Hl Hs] Hr]. exists b, ncl. auto.
  Qed.

  Lemma valid_subspace_ready : cluster_ready H (filter cluster_valid xs).
  Proof.
    constructor.
    - intros st sl Hin E0. apply filter_In in Hin. destruct Hin as [Hin Hv].
      destruct (valid_parts st sl Hv E0) as (b & ncl & Ed & Hl & Hs & Hr).
      destruct (canon_facts st sl Hin) as (Hg & _ & _).
      unfold good in Hg. cbn [fst snd] in Hg. apply andb_true_iff in Hg. destruct Hg as [Hwf Hleg].
      destruct (sym_of_legal sl Hleg) as (_ & _ & S3).
      exists b, ncl. repeat split; auto.
    - intros [st sl] fl Hin _. apply filter_In in Hin. destruct Hin as [Hin Hv].
      destruct (Nat.eqb (count_ops sl) 0) eqn:E0.
      + unfold cl_act. cbn [fst snd]. rewrite E0. apply filter_In. split; assumption.
      + destruct (valid_parts st sl Hv E0) as (b & ncl & Ed & Hl & Hs & Hr).
        destruct (flip_of_valid st sl b ncl fl Hin E0 Ed Hl Hs Hr) as [Hi Hv'].
        apply filter_In. split; assumption.
  Qed.

  Theorem cluster_v_stationary beta : wstat xs (W H beta) cluster_cfg_v.
  Proof.
    apply (wstat_split xs (W H beta) cluster_cfg_v cluster_valid).
    - intros x f _ Hv. unfold cluster_cfg_v. rewrite Hv. apply expect_ret.
    - apply (wstat_ext_in (filter cluster_valid xs) (W H beta) cluster_cfg).
      + intros x f Hx. apply filter_In in Hx. destruct Hx as [_ Hv]. unfold cluster_cfg_v. now rewrite Hv.
      + apply (cluster_kernel_stationary H beta (filter cluster_valid xs)).
        * apply NoDup_filter. apply (sp_nodup H L xs (canon_space_ok H (all_substates nv) L)).
        * exact valid_subspace_ready.
  Qed.

  Lemma canon_free st sl v : In (st, sl) xs -> var_has_ops sl v = false -> In (toggle_var st v, sl) xs.
  Proof.
    intros Hin Hv. destruct (canon_facts st sl Hin) as (Hg & HL & Hn).
    unfold good in Hg. cbn [fst snd] in Hg. apply andb_true_iff in Hg. destruct Hg as [Hwf Hleg].
    apply in_canon; [|exact HL|unfold toggle_var; now rewrite set_nth_length].
    unfold good. cbn [fst snd]. rewrite Hleg, andb_true_r. unfold toggle_var.
    apply wf_set_free; [now apply var_no_ops_untouched|exact Hwf].
  Qed.

  Definition pipeline_cfg_v (upd : cfg -> prog cfg) (c : cfg) : prog cfg :=
    bind (upd c) (fun c1 => bind (cluster_cfg_v c1) refresh_cfg).

  Theorem pipeline_v_stationary beta (upd : cfg -> prog cfg) :
    wstat xs (W H beta) upd -> wstat xs (W H beta) (pipeline_cfg_v upd).
  Proof.
    intros Hupd. unfold pipeline_cfg_v.
    apply (wstat_comp xs (W H beta) upd (fun c1 => bind (cluster_cfg_v c1) refresh_cfg)); [exact Hupd|].
    apply (wstat_comp xs (W H beta) cluster_cfg_v refresh_cfg); [apply cluster_v_stationary|].
    apply (wstat_ext_in xs (W H beta) (refresh_sweep 0 nv)).
    - intros [st sl] f Hc. destruct (canon_facts st sl Hc) as (_ & _ & Hn).
      rewrite refresh_cfg_is_sweep. cbn [fst]. rewrite Hn. reflexivity.
    - apply (refresh_sweep_stationary H beta xs (sp_nodup H L xs (canon_space_ok H (all_substates nv) L))).
      intros st sl v. apply canon_free.
  Qed.

  Theorem metropolis_pipeline_v_stationary beta :
    0 < beta -> (0 < h_nbonds H)%nat -> wstat xs (W H beta) (pipeline_cfg_v (update_cfg (met_update H beta))).
  Proof. intros Hb Hk. apply pipeline_v_stationary. now apply metropolis_update_stationary_canon. Qed.

  Theorem heatbath_pipeline_v_stationary beta :
    0 < beta -> wstat xs (W H beta) (pipeline_cfg_v (update_cfg (hb_update H (bond_weights H) beta))).
  Proof. intros Hb. apply pipeline_v_stationary. now apply heatbath_update_stationary_canon. Qed.
End Validated.

(* where the validators pass, the validated stage IS the model's cluster update *)
Lemma cluster_cfg_v_is_model c : cluster_valid c = true -> cluster_cfg_v c = cluster_cfg c.
Proof. intros Hv. unfold cluster_cfg_v. now rewrite Hv. Qed.

(* ------------------------------------------------------------------ *)
(* the Ising table without a longitudinal field is flip-symmetric      *)
Lemma two_site_flip_sym ins outs j : two_site (flip_all ins) (flip_all outs) j == two_site ins outs j.
Proof.
  unfold two_site, flip_all.
  destruct ins as [|a [|b [|? ?]]]; cbn [map]; try reflexivity.
  destruct outs as [|c [|d [|? ?]]]; cbn [map]; try reflexivity.
  destruct a, b, c, d; reflexivity.
Qed.

Theorem ising_sym_ham g : has_long g = false -> sym_ham (ising_ham g).
Proof.
  intros Hh o Hleg. unfold op_legal in Hleg. rewrite !andb_true_iff in Hleg.
  destruct Hleg as [[[[[Hb Hv] Hc] _] _] _].
  apply Nat.ltb_lt in Hb. apply eqb_prop in Hc.
  cbn [ising_ham h_nbonds h_vars h_const] in Hb, Hv, Hc.
  unfold ising_nbonds in Hb. rewrite Hh in Hb.
  unfold is_edge, sk_is_edge, skel_of. cbn [sk_const sk_vars]. rewrite Hc.
  unfold ising_const.
  destruct (Nat.ltb (o_bond o) (length (i_edges g))) eqn:E1; cbn [negb andb].
  - (* a two-site term *)
    unfold flip_sym, op_weight. cbn [ising_ham h_weight]. unfold ising_weight. rewrite E1.
    destruct (nth_error (i_edges g) (o_bond o)) as [[[x y] j]|]; [apply two_site_flip_sym|reflexivity].
  - apply Nat.ltb_ge in E1.
    replace (Nat.ltb (o_bond o) (length (i_edges g) + i_nvars g)) with true by (symmetry; apply Nat.ltb_lt; lia).
    (* a transverse term: one variable, weight Gamma whatever the values *)
    apply FastOpsLemmas.nats_eqb_eq in Hv. unfold ising_vars in Hv.
    replace (Nat.ltb (o_bond o) (length (i_edges g))) with false in Hv by (symmetry; apply Nat.ltb_ge; exact E1).
    replace (Nat.ltb (o_bond o) (length (i_edges g) + i_nvars g)) with true in Hv by (symmetry; apply Nat.ltb_lt; lia).
    rewrite Hv. cbn [length Nat.eqb].
    unfold edge_free, op_weight. intros i o'. cbn [ising_ham h_weight]. unfold ising_weight.
    replace (Nat.ltb (o_bond o) (length (i_edges g))) with false by (symmetry; apply Nat.ltb_ge; exact E1).
    replace (Nat.ltb (o_bond o) (length (i_edges g) + i_nvars g)) with true by (symmetry; apply Nat.ltb_lt; lia).
    reflexivity.
Qed.

(* the headline: for EVERY Ising model without longitudinal field, every beta > 0, every cutoff: the default
   pipeline (Metropolis diagonal update, cluster update with validated decomposition, free-spin refresh) leaves
   the SSE weight stationary on the space of ALL consistent legal configurations *)
Theorem ising_pipeline_stationary g beta L :
  has_long g = false -> 0 < beta -> (0 < ising_nbonds g)%nat ->
  wstat (canon (ising_ham g) (all_substates (i_nvars g)) L) (W (ising_ham g) beta)
        (pipeline_cfg_v (update_cfg (met_update (ising_ham g) beta))).
Proof.
  intros Hh Hb Hk. apply (metropolis_pipeline_v_stationary (ising_ham g) (ising_sym_ham g Hh) (i_nvars g) L beta Hb). exact Hk.
Qed.

Theorem ising_heatbath_pipeline_stationary g beta L :
  has_long g = false -> 0 < beta ->
  wstat (canon (ising_ham g) (all_substates (i_nvars g)) L) (W (ising_ham g) beta)
        (pipeline_cfg_v (update_cfg (hb_update (ising_ham g) (bond_weights (ising_ham g)) beta))).
Proof.
  intros Hh Hb. apply (heatbath_pipeline_v_stationary (ising_ham g) (ising_sym_ham g Hh) (i_nvars g) L beta Hb).
Qed.

(* the validity test is the one the correspondence check evaluates on every replayed configuration *)
From QmcV Require Import Check.Common.
Lemma cluster_valid_is_checked c : cluster_valid c = valid_decomp (fst c) (snd c).
Proof. unfold cluster_valid, valid_decomp. destruct (Nat.eqb (count_ops (snd c)) 0); reflexivity. Qed.
