(* The SSE configuration weight and its ratio under filling one empty slot (C01/C02/C08), the
   Ising sampler's matrix elements against the Hamiltonian it documents, and generic facts about
   stationarity of finite kernels (C05). *)
From Coq Require Import List QArith ZArith NArith Bool Arith Lia Lqa.
From QmcV Require Import Model.Prog Model.Sse Model.Ham Model.Diagonal Proofs.ProgLemmas Proofs.HamProofs
     Proofs.DiagonalProofs Proofs.ConvertProofs.
Import ListNotations.
Open Scope Q_scope.

(* ---------------- factorials and powers ---------------- *)
Lemma qfact_pos n : 0 < qfact n.
Proof.
  induction n as [|n IH]; cbn [qfact]; [lra|].
  apply Qmult_lt_0_compat; [|exact IH]. unfold Qlt. cbn. lia.
Qed.

Lemma qfact_S n : qfact (S n) == Qnat (S n) * qfact n.
Proof. reflexivity. Qed.

Lemma qpow_S q n : qpow q (S n) == q * qpow q n.
Proof. reflexivity. Qed.

(* ---------------- filling an empty slot ---------------- *)
Lemma count_ops_set_some sl p o :
  nth_error sl p = Some None -> count_ops (set_nth sl p (Some o)) = S (count_ops sl).
Proof.
  revert p. induction sl as [|s sl IH]; intros p H; destruct p; cbn in H; try discriminate.
  - inversion H; subst. reflexivity.
  - cbn [set_nth]. rewrite !count_ops_cons, (IH p H). lia.
Qed.

Lemma weight_product_set_some H sl p o :
  nth_error sl p = Some None ->
  weight_product H (set_nth sl p (Some o)) == op_weight H o * weight_product H sl.
Proof.
  unfold weight_product. revert p. induction sl as [|s sl IH]; intros p Hn; destruct p; cbn in Hn; try discriminate.
  - inversion Hn; subst. cbn [set_nth fold_right]. reflexivity.
  - cbn [set_nth fold_right]. destruct s; rewrite (IH p Hn); ring.
Qed.

Lemma set_nth_len {A} (l : list A) i x : length (set_nth l i x) = length l.
Proof.
  revert i. induction l as [|h t IH]; intros i; cbn; [reflexivity|]. destruct i; cbn; [reflexivity|]. now rewrite IH.
Qed.

Lemma nth_error_some_lt {A} (l : list A) p x : nth_error l p = Some x -> (p < length l)%nat.
Proof. intros H. apply nth_error_Some. congruence. Qed.

(* W(beta, L, string with o placed in the empty slot p) * (L - n) == beta * w(o) * W(beta, L, string) *)
Theorem sse_weight_fill_ratio H beta sl p o :
  nth_error sl p = Some None ->
  sse_weight H beta (set_nth sl p (Some o)) * Qnat (length sl - count_ops sl)
  == beta * op_weight H o * sse_weight H beta sl.
Proof.
  intros Hn. unfold sse_weight.
  rewrite set_nth_len, (count_ops_set_some sl p o Hn), (weight_product_set_some H sl p o Hn).
  set (L := length sl). set (n := count_ops sl).
  assert (Hlt : (n < L)%nat).
  { unfold n, L. apply empty_slot_headroom. eapply nth_error_In; eauto. }
  replace (L - n)%nat with (S (L - S n)) by lia.
  rewrite qfact_S, qpow_S.
  pose proof (qfact_pos L). pose proof (qfact_pos (L - S n)).
  field. lra.
Qed.

(* ---------------- slot-level detailed balance w.r.t. the SSE weight ---------------- *)
Theorem metropolis_slot_balance_wrt_weight H beta st sl p b :
  nth_error sl p = Some None -> (b < h_nbonds H)%nat -> 0 < beta -> 0 < diag_weight H b st ->
  let L := length sl in
  let n := count_ops sl in
  let o := mk_diag H b st in
  let P_ins := mass (is_slot (Some o)) (denote (met_slot H L n beta st None)) in
  let P_rem := mass (is_slot None) (denote (met_slot H L (S n) beta st (Some o))) in
  sse_weight H beta sl * P_ins == sse_weight H beta (set_nth sl p (Some o)) * P_rem.
Proof.
  intros Hn Hb Hbeta Hw. cbv zeta.
  set (L := length sl). set (n := count_ops sl).
  assert (Hlt : (n < L)%nat) by (unfold n, L; apply empty_slot_headroom; eapply nth_error_In; eauto).
  destruct (metropolis_balance H L n beta st b Hlt Hb Hbeta Hw) as [Hbal Hpos].
  pose proof (sse_weight_fill_ratio H beta sl p (mk_diag H b st) Hn) as Hr.
  fold L n in Hr.
  assert (Hop : op_weight H (mk_diag H b st) == diag_weight H b st) by reflexivity.
  rewrite Hop in Hr.
  assert (Hd : 0 < Qnat (L - n)) by (apply Qnat_pos; lia).
  set (Pi := mass _ (denote (met_slot H L n beta st None))) in *.
  set (Pr := mass _ (denote (met_slot H L (S n) beta st (Some (mk_diag H b st))))) in *.
  set (We := sse_weight H beta sl) in *. set (Wb := sse_weight H beta (set_nth sl p (Some (mk_diag H b st)))) in *.
  apply (Qmult_inj_r _ _ (Qnat (L - n))); [lra|].
  transitivity (We * (Pi * Qnat (L - n))); [ring|]. rewrite Hbal.
  transitivity ((Wb * Qnat (L - n)) * Pr); [|ring]. rewrite Hr. ring.
Qed.

Theorem heatbath_slot_balance_wrt_weight H beta st sl p b :
  nth_error sl p = Some None -> (b < h_nbonds H)%nat -> 0 < beta -> 0 < diag_weight H b st ->
  let L := length sl in
  let n := count_ops sl in
  let o := mk_diag H b st in
  let bw := bond_weights H in
  let P_ins := mass (is_slot (Some o)) (denote (hb_slot H bw L n beta st None)) in
  let P_rem := mass (is_slot None) (denote (hb_slot H bw L (S n) beta st (Some o))) in
  sse_weight H beta sl * P_ins == sse_weight H beta (set_nth sl p (Some o)) * P_rem.
Proof.
  intros Hn Hb Hbeta Hw. cbv zeta.
  set (L := length sl). set (n := count_ops sl).
  assert (Hlt : (n < L)%nat) by (unfold n, L; apply empty_slot_headroom; eapply nth_error_In; eauto).
  destruct (heatbath_balance H L n beta st b Hlt Hb Hbeta Hw) as [Hbal Hpos].
  pose proof (sse_weight_fill_ratio H beta sl p (mk_diag H b st) Hn) as Hr.
  fold L n in Hr.
  assert (Hop : op_weight H (mk_diag H b st) == diag_weight H b st) by reflexivity.
  rewrite Hop in Hr.
  assert (Hd : 0 < Qnat (L - n)) by (apply Qnat_pos; lia).
  cbv zeta in Hbal.
  set (Pi := mass _ (denote (hb_slot H (bond_weights H) L n beta st None))) in *.
  set (Pr := mass _ (denote (hb_slot H (bond_weights H) L (S n) beta st (Some (mk_diag H b st))))) in *.
  set (We := sse_weight H beta sl) in *. set (Wb := sse_weight H beta (set_nth sl p (Some (mk_diag H b st)))) in *.
  apply (Qmult_inj_r _ _ (Qnat (L - n))); [lra|].
  transitivity (We * (Pi * Qnat (L - n))); [ring|]. rewrite Hbal.
  transitivity ((Wb * Qnat (L - n)) * Pr); [|ring]. rewrite Hr. ring.
Qed.

(* ---------------- detailed balance on a star gives stationarity ---------------- *)
(* one slot, everything else fixed: states = empty | bond b; moves only between empty and b.
   [items] lists (pi_b, P_ins_b, P_rem_b). *)
Definition star_ok (pe : Q) (items : list (Q * Q * Q)) : Prop :=
  Forall (fun '(pb, pins, prem) => pe * pins == pb * prem) items.

(* stationarity at the empty state: what flows out to the bonds flows back *)
Theorem star_stationary_empty pe items :
  star_ok pe items ->
  pe * (1 - Qsum (map (fun '(_, pins, _) => pins) items))
  + Qsum (map (fun '(pb, _, prem) => pb * prem) items) == pe.
Proof.
  intros H. induction H as [|[[pb pins] prem] items Hx Hr IH]; cbn [map Qsum fold_right].
  - ring.
  - change (fold_right Qplus 0 (map (fun '(_, pins0, _) => pins0) items)) with (Qsum (map (fun '(_, pins0, _) => pins0) items)).
    change (fold_right Qplus 0 (map (fun '(pb0, _, prem0) => pb0 * prem0) items)) with (Qsum (map (fun '(pb0, _, prem0) => pb0 * prem0) items)).
    cbn in Hx. lra.
Qed.

(* stationarity at a bond state *)
Theorem star_stationary_bond pe pb pins prem :
  pe * pins == pb * prem -> pe * pins + pb * (1 - prem) == pb.
Proof. intros H. lra. Qed.

(* ---------------- finite kernels: composition keeps a stationary vector ---------------- *)
Definition ksum (N : nat) (f : nat -> Q) : Q := Qsum (map f (seq 0 N)).
Definition stationary (N : nat) (pi : nat -> Q) (K : nat -> nat -> Q) : Prop :=
  forall j, (j < N)%nat -> ksum N (fun i => pi i * K i j) == pi j.
Definition kcomp (N : nat) (K1 K2 : nat -> nat -> Q) : nat -> nat -> Q :=
  fun i j => ksum N (fun k => K1 i k * K2 k j).

Lemma Qsum_map_ext_in {B} (g h : B -> Q) l :
  (forall i, In i l -> g i == h i) -> Qsum (map g l) == Qsum (map h l).
Proof. apply Qsum_ext. Qed.

Lemma Qsum_map_plus {B} (g h : B -> Q) l : Qsum (map (fun i => g i + h i) l) == Qsum (map g l) + Qsum (map h l).
Proof.
  induction l as [|x l IH]; cbn [map Qsum fold_right]; [lra|].
  change (fold_right Qplus 0 (map (fun i => g i + h i) l)) with (Qsum (map (fun i => g i + h i) l)).
  change (fold_right Qplus 0 (map g l)) with (Qsum (map g l)).
  change (fold_right Qplus 0 (map h l)) with (Qsum (map h l)). rewrite IH. lra.
Qed.

Lemma Qsum_map_scale {B} (c : Q) (g : B -> Q) l : Qsum (map (fun i => c * g i) l) == c * Qsum (map g l).
Proof.
  induction l as [|x l IH]; cbn [map Qsum fold_right]; [lra|].
  change (fold_right Qplus 0 (map (fun i => c * g i) l)) with (Qsum (map (fun i => c * g i) l)).
  change (fold_right Qplus 0 (map g l)) with (Qsum (map g l)). rewrite IH. lra.
Qed.

Lemma Qsum_exchange {B C} (f : B -> C -> Q) (l1 : list B) (l2 : list C) :
  Qsum (map (fun i => Qsum (map (fun k => f i k) l2)) l1) == Qsum (map (fun k => Qsum (map (fun i => f i k) l1)) l2).
Proof.
  induction l1 as [|x l1 IH]; cbn [map Qsum fold_right].
  - symmetry. apply Qsum_all_zero. intros; reflexivity.
  - change (fold_right Qplus 0 (map (fun i => Qsum (map (fun k => f i k) l2)) l1))
      with (Qsum (map (fun i => Qsum (map (fun k => f i k) l2)) l1)).
    rewrite IH. rewrite <- Qsum_map_plus. apply Qsum_ext. intros k _. reflexivity.
Qed.

Theorem stationary_comp N pi K1 K2 :
  stationary N pi K1 -> stationary N pi K2 -> stationary N pi (kcomp N K1 K2).
Proof.
  intros H1 H2 j Hj. unfold ksum, kcomp, ksum.
  transitivity (Qsum (map (fun i => Qsum (map (fun k => pi i * K1 i k * K2 k j) (seq 0 N))) (seq 0 N))).
  { apply Qsum_ext. intros i _. rewrite <- Qsum_map_scale. apply Qsum_ext. intros k _. ring. }
  rewrite Qsum_exchange.
  transitivity (Qsum (map (fun k => pi k * K2 k j) (seq 0 N))).
  - apply Qsum_ext. intros k Hk. apply in_seq in Hk.
    transitivity (K2 k j * Qsum (map (fun i => pi i * K1 i k) (seq 0 N))).
    + rewrite <- Qsum_map_scale. apply Qsum_ext. intros i _. ring.
    + unfold stationary, ksum in H1. rewrite (H1 k) by lia. ring.
  - apply (H2 j Hj).
Qed.

(* detailed balance implies stationarity for a finite kernel whose rows sum to one *)
Theorem detailed_balance_stationary N pi K :
  (forall i j, (i < N)%nat -> (j < N)%nat -> pi i * K i j == pi j * K j i) ->
  (forall j, (j < N)%nat -> ksum N (fun i => K j i) == 1) ->
  stationary N pi K.
Proof.
  intros Hdb Hrow j Hj. unfold ksum.
  transitivity (Qsum (map (fun i => pi j * K j i) (seq 0 N))).
  - apply Qsum_ext. intros i Hi. apply in_seq in Hi. apply Hdb; lia.
  - rewrite Qsum_map_scale. unfold ksum in Hrow. rewrite (Hrow j Hj). ring.
Qed.

(* ---------------- the Ising sampler's matrix elements are those of its Hamiltonian ---------------- *)
Definition sgn (b : bool) : Q := if b then 1 else -1.

(* two-site term  J s_a s_b :  <ab| (|J| - J s s) |ab> on the diagonal, nothing off the diagonal *)
Theorem two_site_elements a b c d j :
  two_site [a; b] [c; d] j ==
  if (Bool.eqb a c && Bool.eqb b d)%bool then Qabs' j - j * (sgn a * sgn b) else 0.
Proof.
  unfold two_site, sgn. destruct a, b, c, d; cbn [Bool.eqb andb]; ring.
Qed.

(* transverse term  -Gamma sx :  Gamma * (1 + sx), i.e. Gamma in all four entries *)
Theorem transverse_elements g (a b : bool) : transverse_w g == g * (if Bool.eqb a b then 1 else 0) + g * (if Bool.eqb a b then 0 else 1).
Proof. unfold transverse_w. destruct (Bool.eqb a b); ring. Qed.

(* longitudinal term  -h s :  |h| + h s on the diagonal *)
Theorem longitudinal_diag_elements h a : longitudinal_w [a] [a] h == Qabs' h + h * sgn a.
Proof. unfold longitudinal_w, sgn. rewrite eqb_reflx. destruct a; ring. Qed.

(* exchanging two replicas' configurations: Metropolis acceptance balances the product weight *)
Theorem swap_balance (x y : Q) : 0 < x -> 0 < y -> x * ratio_prob y x == y * ratio_prob x y.
Proof. intros Hx Hy. rewrite Qmult_comm. rewrite (ratio_balance y x Hy Hx). ring. Qed.
