(* SSE configurations: operators, slot arrays, world-line propagation, weights.
   Model file: definitions only. *)
From Coq Require Import List QArith ZArith NArith Bool Arith.
Import ListNotations.
Open Scope Q_scope.

Record op := mkOp {
  o_vars : list nat;       (* variables acted on, in bond order *)
  o_bond : nat;            (* bond (Hamiltonian term) index *)
  o_in : list bool;        (* input values, one per variable *)
  o_out : list bool;       (* output values *)
  o_const : bool           (* "constant" flag copied from the bond *)
}.

Definition slots := list (option op).
Definition state := list bool.

Fixpoint list_beq {A} (eqb : A -> A -> bool) (a b : list A) : bool :=
  match a, b with
  | [], [] => true
  | x :: a', y :: b' => eqb x y && list_beq eqb a' b'
  | _, _ => false
  end.

Definition bools_eqb := list_beq Bool.eqb.
Definition nats_eqb := list_beq Nat.eqb.

Definition op_eqb (a b : op) : bool :=
  nats_eqb (o_vars a) (o_vars b) && Nat.eqb (o_bond a) (o_bond b)
  && bools_eqb (o_in a) (o_in b) && bools_eqb (o_out a) (o_out b)
  && Bool.eqb (o_const a) (o_const b).

Definition oop_eqb (a b : option op) : bool :=
  match a, b with
  | None, None => true
  | Some x, Some y => op_eqb x y
  | _, _ => false
  end.

Definition slots_eqb := list_beq oop_eqb.

Definition is_diag (o : op) : bool := bools_eqb (o_in o) (o_out o).

Fixpoint set_nth {A} (l : list A) (i : nat) (x : A) : list A :=
  match l, i with
  | [], _ => []
  | _ :: t, O => x :: t
  | h :: t, S j => h :: set_nth t j x
  end.

Fixpoint write_vals (st : state) (vars : list nat) (vals : list bool) : state :=
  match vars, vals with
  | v :: vs, b :: bs => write_vals (set_nth st v b) vs bs
  | _, _ => st
  end.

Definition read_vals (st : state) (vars : list nat) : list bool :=
  map (fun v => nth v st false) vars.

Definition apply_op (st : state) (o : op) : state := write_vals st (o_vars o) (o_out o).

Definition apply_slot (st : state) (s : option op) : state :=
  match s with None => st | Some o => apply_op st o end.

Definition propagate (st : state) (sl : slots) : state := fold_left apply_slot sl st.

(* every operator meets exactly its recorded inputs; returns the final state *)
Fixpoint check_line (st : state) (sl : slots) : option state :=
  match sl with
  | [] => Some st
  | None :: r => check_line st r
  | Some o :: r =>
      if bools_eqb (read_vals st (o_vars o)) (o_in o)
         && Nat.eqb (length (o_in o)) (length (o_vars o))
         && Nat.eqb (length (o_out o)) (length (o_vars o))
      then check_line (apply_op st o) r
      else None
  end.

(* the periodic world-line consistency check (what OpContainer::verify computes) *)
Definition wf (st : state) (sl : slots) : bool :=
  match check_line st sl with
  | Some st' => bools_eqb st' st
  | None => false
  end.

Definition count_ops (sl : slots) : nat :=
  length (filter (fun s => match s with Some _ => true | None => false end) sl).

Definition count_bond (b : nat) (sl : slots) : nat :=
  length (filter (fun s => match s with Some o => Nat.eqb (o_bond o) b | None => false end) sl).

(* the states visited by the imaginary-time fold: one per slot, before the slot's op *)
Fixpoint itime_states (st : state) (sl : slots) : list state :=
  match sl with
  | [] => []
  | s :: r => st :: itime_states (apply_slot st s) r
  end.

(* skeleton: everything but the spin values *)
Definition skel_of (o : op) : list nat * nat * bool := (o_vars o, o_bond o, o_const o).
Definition skeleton (sl : slots) := map (option_map skel_of) sl.

(* ------------------------------------------------------------------ *)
(* Hamiltonian interface used by the updates.                          *)
Record ham := mkHam {
  h_nbonds : nat;
  h_vars : nat -> list nat;
  h_const : nat -> bool;
  h_weight : nat -> list bool -> list bool -> Q     (* bond, inputs, outputs *)
}.

Definition op_weight (H : ham) (o : op) : Q := h_weight H (o_bond o) (o_in o) (o_out o).

Definition weight_product (H : ham) (sl : slots) : Q :=
  fold_right (fun s acc => match s with Some o => op_weight H o * acc | None => acc end) 1 sl.

(* legality of a stored operator w.r.t. the configured Hamiltonian (C07) *)
Definition op_legal (H : ham) (o : op) : bool :=
  Nat.ltb (o_bond o) (h_nbonds H)
  && nats_eqb (o_vars o) (h_vars H (o_bond o))
  && Bool.eqb (o_const o) (h_const H (o_bond o))
  && Nat.eqb (length (o_in o)) (length (o_vars o))
  && Nat.eqb (length (o_out o)) (length (o_vars o))
  && negb (Qle_bool (op_weight H o) 0).

Definition all_legal (H : ham) (sl : slots) : bool :=
  forallb (fun s => match s with Some o => op_legal H o | None => true end) sl.

Definition mk_diag (H : ham) (b : nat) (st : state) : op :=
  let vs := h_vars H b in
  let sub := read_vals st vs in
  mkOp vs b sub sub (h_const H b).

(* factorial-free SSE weight ratio helpers live in Proofs; the weight itself:
   W(beta, L, sl) = beta^n (L-n)! / L! * prod w(op) *)
Fixpoint qpow (q : Q) (n : nat) : Q := match n with O => 1 | S k => q * qpow q k end.
Fixpoint qfact (n : nat) : Q := match n with O => 1 | S k => (Z.of_nat (S k) # 1) * qfact k end.

Definition sse_weight (H : ham) (beta : Q) (sl : slots) : Q :=
  let L := length sl in
  let n := count_ops sl in
  qpow beta n * qfact (L - n) / qfact L * weight_product H sl.
