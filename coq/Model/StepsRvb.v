(* QmcIsingGraph::timestep with automatic RVB steps enabled (set_run_rvb(true)).
   Model file: definitions only. *)
From Coq Require Import List QArith ZArith NArith Bool Arith.
From QmcV Require Import Model.Prog Model.Sse Model.Nav Model.Ham Model.Diagonal Model.Cluster Model.Steps Model.Rvb.
Import ListNotations.
Local Open Scope nat_scope.

Definition ising_timestep_rvb (g : ising) (hb : bool) (beta : Q) (cutoff : nat) (st : state) (sl : slots)
  : prog (option (slots * state * nat)) :=
  bind (ising_diag g hb beta cutoff st sl) (fun '(sl1, n1, st1) =>
  bind (rvb_update g ((length st1 + 1) / 2) st1 sl1) (fun rr =>
    match rr with
    | None => Ret None
    | Some (st1', sl1', _) =>
        bind (ising_cluster g sl1' st1') (fun r =>
          match r with
          | None => Ret None
          | Some (sl2, st2, _) =>
              bind (refresh sl2 st2) (fun st3 =>
                Ret (Some (sl2, st3, next_cutoff cutoff (count_ops sl2))))
          end)
    end)).
