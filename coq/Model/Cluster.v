(* Cluster update (qmc_traits/cluster.rs), transcribed with its exploration order so that
   cluster numbers — and hence the order of the RNG draws — agree with the implementation.
   Model file: definitions only. *)
From Coq Require Import List QArith ZArith NArith Bool Arith.
From QmcV Require Import Model.Prog Model.Sse Model.Nav.
Import ListNotations.
Local Open Scope nat_scope.

(* OpSide: false = Inputs, true = Outputs *)
Definition side := bool.
Definition Inputs : side := false.
Definition Outputs : side := true.

Definition bounds := list (option nat * option nat).

Definition sk_is_edge (k : skel) : bool := sk_const k && Nat.eqb (length (sk_vars k)) 1.
Definition is_edge (o : op) : bool := sk_is_edge (skel_of o).
Definition skeleton_t := list (option skel).

Definition bget (b : bounds) (p : nat) : option nat * option nat := nth p b (None, None).

(* set_boundary: returns the new table and whether both sides are now assigned *)
Definition set_boundary (p : nat) (sel : side) (c : nat) (b : bounds) : bounds * bool :=
  let '(t0, t1) := bget b p in
  let res := if sel then (t0, Some c) else (Some c, t1) in
  (set_nth b p res,
   match res with (Some _, Some _) => true | _ => false end).

Definition set_boundaries (p c : nat) (b : bounds) : bounds :=
  fst (set_boundary p Outputs c (fst (set_boundary p Inputs c b))).

Definition all_legs (k : nat) : list (nat * side) :=
  map (fun v => (v, Inputs)) (seq 0 k) ++ map (fun v => (v, Outputs)) (seq 0 k).

Definition leg_eqb (a b : nat * side) : bool := Nat.eqb (fst a) (fst b) && Bool.eqb (snd a) (snd b).

(* pushing l1..lk in order onto a stack whose head is the top *)
Definition push_all {A} (xs : list A) (stack : list A) : list A := rev xs ++ stack.

Definition discoverable (ab : option nat * option nat) (c : nat) : bool :=
  match ab with
  | (None, None) => true
  | (Some c', None) => Nat.eqb c' c
  | (None, Some c') => Nat.eqb c' c
  | _ => false
  end.

(* the inner loop of expand_whole_cluster *)
Fixpoint expand_loop (fuel : nat) (sl : skeleton_t) (c : nat) (b : bounds)
         (frontier : list (nat * side)) (interior : list (nat * (nat * side)))
  : option (bounds * list (nat * side)) :=
  match fuel with
  | O => None
  | S f =>
      match interior with
      | [] => Some (b, frontier)
      | (p, (relv, sd)) :: rest =>
          let b1 := fst (set_boundary p sd c b) in
          match g_get sl p with
          | None => None
          | Some o =>
              let var := nth relv (sk_vars o) 0 in
              let nb := if sd then g_next_wrap sk_vars sl p var else g_prev_wrap sk_vars sl p var in
              match nb with
              | None => None
              | Some (q, relq) =>
                  let nside := negb sd in
                  match g_get sl q with
                  | None => None
                  | Some oq =>
                      if sk_is_edge oq then
                        let '(b2, both) := set_boundary q nside c b1 in
                        expand_loop f sl c b2 (if both then frontier else (q, sd) :: frontier) rest
                      else if discoverable (bget b1 q) c then
                        let b2 := set_boundaries q c b1 in
                        let legs := filter (fun l => negb (leg_eqb l (relq, nside)))
                                           (all_legs (length (sk_vars oq))) in
                        expand_loop f sl c b2 frontier (push_all (map (fun l => (q, l)) legs) rest)
                      else expand_loop f sl c b1 frontier rest
                  end
              end
          end
      end
  end.

Definition expand_whole (fuel : nat) (sl : skeleton_t) (p : nat) (leg : nat * side) (c : nat)
           (b : bounds) (frontier : list (nat * side)) : option (bounds * list (nat * side)) :=
  match g_get sl p with
  | None => None
  | Some o =>
      let interior :=
        if sk_is_edge o then [(p, leg)]
        else push_all (map (fun l => (p, l)) (all_legs (length (sk_vars o)))) [] in
      (* an operator that covers no variables is a cluster by itself (fix 2af70d2) *)
      let b0 := if negb (sk_is_edge o) && Nat.eqb (length (sk_vars o)) 0 then set_boundaries p c b else b in
      expand_loop fuel sl c b0 frontier interior
  end.

Fixpoint first_unmapped_from (p : nat) (sl : skeleton_t) (b : bounds) : option nat :=
  match sl with
  | [] => None
  | s :: r =>
      match s, bget b p with
      | Some _, (None, None) => Some p
      | _, _ => first_unmapped_from (S p) r (b)
      end
  end.

Fixpoint main_loop (fuel : nat) (sl : skeleton_t) (b : bounds) (frontier : list (nat * side)) (c : nat)
  : option (bounds * nat) :=
  match fuel with
  | O => None
  | S f =>
      match frontier with
      | (p, sd) :: rest =>
          match bget b p with
          | (Some _, Some _) => main_loop f sl b rest c
          | _ =>
              match expand_whole fuel sl p (0, sd) c b rest with
              | Some (b', fr') => main_loop f sl b' fr' (S c)
              | None => None
              end
          end
      | [] =>
          match first_unmapped_from 0 sl b with
          | Some p => main_loop f sl b [(p, Inputs); (p, Outputs)] c
          | None => Some (b, c)
          end
      end
  end.

Definition find_constant_op (sl : skeleton_t) : option nat :=
  find (fun p => match g_get sl p with Some o => sk_is_edge o | None => false end) (g_occupied sl).

Definition total_legs (sl : skeleton_t) : nat :=
  fold_right (fun s acc => match s with Some o => 2 * length (sk_vars o) + acc | None => acc end) 0 sl.

(* boundaries and number of clusters; None = fuel exhausted / malformed string *)
Definition decompose_sk (sl : skeleton_t) : option (bounds * nat) :=
  match g_last_p sl with
  | None => Some ([], 0)
  | Some lp =>
      let b0 : bounds := repeat (None, None) (S lp) in
      match find_constant_op sl with
      | Some cp =>
          let fuel := 64 + 8 * total_legs sl + 8 * length sl in
          main_loop fuel sl b0 [(cp, Inputs); (cp, Outputs)] 0
      | None =>
          Some (map (fun s => match s with Some _ => (Some 0, Some 0) | None => (None, None) end)
                    (firstn (S lp) sl), 1)
      end
  end.

(* the decomposition only looks at the skeleton of the operator string *)
Definition decompose (sl : slots) : option (bounds * nat) := decompose_sk (skeleton sl).

(* multiplicative weight change of each cluster under a global flip of the cluster *)
Definition weight_step (sl : slots) (wf : op -> Q) (acc : list Q) (pab : nat * (option nat * option nat)) : list Q :=
  let '(p, ab) := pab in
  match ab, get_op sl p with
  | (Some a, Some c), Some o => if Nat.eqb a c then set_nth acc a (Qmult (nth a acc 1%Q) (wf o)) else acc
  | _, _ => acc
  end.

Definition cluster_weights (sl : slots) (b : bounds) (ncl : nat) (wf : op -> Q) : list Q :=
  fold_left (weight_step sl wf) (combine (seq 0 (length b)) b) (repeat 1%Q ncl).

Definition flip_all (l : list bool) := map negb l.

(* apply the chosen flips; the p = 0 state follows inputs that have no predecessor *)
Definition flip_step (sl : slots) (flips : list bool) (acc : slots * state) (pab : nat * (option nat * option nat)) :=
  let '(sl', st') := acc in
  let '(p, ab) := pab in
  match ab, get_op sl' p with
  | (Some a, Some c), Some o =>
      let fin := nth a flips false in
      let fout := nth c flips false in
      let o1 := if fin then mkOp (o_vars o) (o_bond o) (flip_all (o_in o)) (o_out o) (o_const o) else o in
      let st1 := if fin then
                   fold_left (fun s '(k, v) =>
                                match prev_for_var sl p v with
                                | None => set_nth s v (nth k (o_in o1) false)
                                | Some _ => s
                                end)
                             (combine (seq 0 (length (o_vars o))) (o_vars o)) st'
                 else st' in
      let o2 := if fout then mkOp (o_vars o1) (o_bond o1) (o_in o1) (flip_all (o_out o1)) (o_const o1) else o1 in
      (set_nth sl' p (Some o2), st1)
  | _, _ => (sl', st')
  end.

Definition apply_flips (sl : slots) (st : state) (b : bounds) (flips : list bool) : slots * state :=
  fold_left (flip_step sl flips) (combine (seq 0 (length b)) b) (sl, st).

(* one gen_bool per cluster, in cluster order *)
Fixpoint draw_flips {A} (probs : list Q) (acc : list bool) (k : list bool -> prog A) : prog A :=
  match probs with
  | [] => k (rev acc)
  | p :: r => Bern p (fun b => draw_flips r (b :: acc) k)
  end.

(* flip_each_cluster_rng: returns (slots, state, number of clusters); None on model failure *)
Definition cluster_update (prob : Q) (wf : option (op -> Q)) (sl : slots) (st : state)
  : prog (option (slots * state * nat)) :=
  if Nat.eqb (count_ops sl) 0 then Ret (Some (sl, st, 0))
  else match decompose sl with
       | None => Ret None
       | Some (b, ncl) =>
           let probs := match wf with
                        | Some f => map (fun w => Qmult w prob) (cluster_weights sl b ncl f)
                        | None => repeat prob ncl
                        end in
           draw_flips probs [] (fun flips =>
             let '(sl', st') := apply_flips sl st b flips in Ret (Some (sl', st', ncl)))
       end.

(* free-spin refresh: one gen_bool(1/2) per variable without operators, in variable order *)
Fixpoint refresh_from (v : nat) (nvars : nat) (sl : slots) (st : state) : prog state :=
  match nvars with
  | O => Ret st
  | S k =>
      if var_has_ops sl v then refresh_from (S v) k sl st
      else Bern (1 # 2) (fun b => refresh_from (S v) k sl (set_nth st v b))
  end.
Definition refresh (sl : slots) (st : state) : prog state := refresh_from 0 (length st) sl st.
