(* Ising -> generic sampler conversion (IntoQmc::into_qmc in qmc_ising.rs).
   Model file: definitions only. *)
From Coq Require Import List QArith ZArith NArith Bool Arith.
From QmcV Require Import Model.Sse Model.Ham.
Import ListNotations.
Open Scope Q_scope.

Definition conv_edge (e : nat * nat * Q) : ctor_result * Q :=
  let '(a, b, j) := e in new_diag_offset [- j; j; j; - j] [a; b].

Definition conv_transverse (g : ising) (v : nat) : ctor_result :=
  new_full [i_gamma g; i_gamma g; i_gamma g; i_gamma g] [v].

Definition conv_long (g : ising) (v : nat) : ctor_result * Q :=
  new_full_offset [- i_h g; 0; 0; i_h g] [v].

Fixpoint collect_ok (l : list ctor_result) : option (list interaction) :=
  match l with
  | [] => Some []
  | COk i :: r => option_map (cons i) (collect_ok r)
  | CErr :: _ => None
  end.

(* bonds in the order into_qmc adds them: edges, transverse terms, longitudinal terms (if any) *)
Definition convert_ctor_results (g : ising) : list ctor_result :=
  map (fun e => fst (conv_edge e)) (i_edges g)
  ++ map (conv_transverse g) (seq 0 (i_nvars g))
  ++ (if has_long g then map (fun v => fst (conv_long g v)) (seq 0 (i_nvars g)) else []).

Definition convert_bonds (g : ising) : option (list interaction) := collect_ok (convert_ctor_results g).

(* offset accumulated by the conversion: minus the subtracted minima *)
Definition convert_offset (g : ising) : Q :=
  fold_right (fun e acc => - snd (conv_edge e) + acc) 0 (i_edges g)
  + (if has_long g then fold_right (fun v acc => - snd (conv_long g v) + acc) 0 (seq 0 (i_nvars g)) else 0).

(* the converted sampler's cutoff (after the fix: exactly the Ising sampler's) *)
Definition convert_cutoff (ising_cutoff : nat) : nat := ising_cutoff.
