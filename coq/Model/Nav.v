(* Naive (scan-based) navigation over a slot array: what the optimised container's
   linked lists must agree with (C11), and what the update models navigate with.
   Model file: definitions only. *)
From Coq Require Import List Bool Arith.
From QmcV Require Import Model.Sse.
Import ListNotations.

Fixpoint index_of (v : nat) (vs : list nat) : option nat :=
  match vs with
  | [] => None
  | x :: r => if Nat.eqb x v then Some 0 else option_map S (index_of v r)
  end.

(* positions (p, relative index) of the operators acting on variable v, in time order *)
Fixpoint ops_on_var_from (p : nat) (sl : slots) (v : nat) : list (nat * nat) :=
  match sl with
  | [] => []
  | None :: r => ops_on_var_from (S p) r v
  | Some o :: r =>
      match index_of v (o_vars o) with
      | Some k => (p, k) :: ops_on_var_from (S p) r v
      | None => ops_on_var_from (S p) r v
      end
  end.
Definition ops_on_var (sl : slots) (v : nat) := ops_on_var_from 0 sl v.

Fixpoint occupied_from (p : nat) (sl : slots) : list nat :=
  match sl with
  | [] => []
  | None :: r => occupied_from (S p) r
  | Some _ :: r => p :: occupied_from (S p) r
  end.
Definition occupied (sl : slots) := occupied_from 0 sl.

Definition last_lt {A} (key : A -> nat) (p : nat) (l : list A) : option A :=
  fold_left (fun acc x => if Nat.ltb (key x) p then Some x else acc) l None.
Definition first_gt {A} (key : A -> nat) (p : nat) (l : list A) : option A :=
  find (fun x => Nat.ltb p (key x)) l.

Definition prev_p (sl : slots) (p : nat) : option nat := last_lt (fun x => x) p (occupied sl).
Definition next_p (sl : slots) (p : nat) : option nat := first_gt (fun x => x) p (occupied sl).
Definition first_p (sl : slots) : option nat := hd_error (occupied sl).
Definition last_p (sl : slots) : option nat := hd_error (rev (occupied sl)).

Definition prev_for_var (sl : slots) (p v : nat) : option (nat * nat) := last_lt fst p (ops_on_var sl v).
Definition next_for_var (sl : slots) (p v : nat) : option (nat * nat) := first_gt fst p (ops_on_var sl v).
Definition first_for_var (sl : slots) (v : nat) : option (nat * nat) := hd_error (ops_on_var sl v).
Definition last_for_var (sl : slots) (v : nat) : option (nat * nat) := hd_error (rev (ops_on_var sl v)).
Definition var_has_ops (sl : slots) (v : nat) : bool :=
  match ops_on_var sl v with [] => false | _ => true end.

Definition get_op (sl : slots) (p : nat) : option op :=
  match nth_error sl p with Some (Some o) => Some o | _ => None end.

(* periodic neighbours along a world line *)
Definition prev_wrap (sl : slots) (p v : nat) : option (nat * nat) :=
  match prev_for_var sl p v with Some x => Some x | None => last_for_var sl v end.
Definition next_wrap (sl : slots) (p v : nat) : option (nat * nat) :=
  match next_for_var sl p v with Some x => Some x | None => first_for_var sl v end.
