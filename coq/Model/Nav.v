(* Naive (scan-based) navigation over a slot array: what the optimised container's
   linked lists must agree with (C11), and what the update models navigate with.
   Everything here only looks at which variables an entry acts on, so the same functions
   serve operator strings and their skeletons.
   Model file: definitions only. *)
From Coq Require Import List Bool Arith.
From QmcV Require Import Model.Sse.
Import ListNotations.

Fixpoint index_of (v : nat) (vs : list nat) : option nat :=
  match vs with
  | [] => None
  | x :: r => if Nat.eqb x v then Some 0 else option_map S (index_of v r)
  end.

Section Generic.
Context {A : Type} (vf : A -> list nat).

(* positions (p, relative index) of the entries acting on variable v, in time order *)
Fixpoint g_ops_on_var_from (p : nat) (sl : list (option A)) (v : nat) : list (nat * nat) :=
  match sl with
  | [] => []
  | None :: r => g_ops_on_var_from (S p) r v
  | Some o :: r =>
      match index_of v (vf o) with
      | Some k => (p, k) :: g_ops_on_var_from (S p) r v
      | None => g_ops_on_var_from (S p) r v
      end
  end.
Definition g_ops_on_var (sl : list (option A)) (v : nat) := g_ops_on_var_from 0 sl v.

Fixpoint g_occupied_from (p : nat) (sl : list (option A)) : list nat :=
  match sl with
  | [] => []
  | None :: r => g_occupied_from (S p) r
  | Some _ :: r => p :: g_occupied_from (S p) r
  end.
Definition g_occupied (sl : list (option A)) := g_occupied_from 0 sl.
End Generic.

Definition last_lt {A} (key : A -> nat) (p : nat) (l : list A) : option A :=
  fold_left (fun acc x => if Nat.ltb (key x) p then Some x else acc) l None.
Definition first_gt {A} (key : A -> nat) (p : nat) (l : list A) : option A :=
  find (fun x => Nat.ltb p (key x)) l.

Section GenericNav.
Context {A : Type} (vf : A -> list nat).
Definition g_prev_p (sl : list (option A)) (p : nat) : option nat := last_lt (fun x => x) p (g_occupied sl).
Definition g_next_p (sl : list (option A)) (p : nat) : option nat := first_gt (fun x => x) p (g_occupied sl).
Definition g_first_p (sl : list (option A)) : option nat := hd_error (g_occupied sl).
Definition g_last_p (sl : list (option A)) : option nat := hd_error (rev (g_occupied sl)).

Definition g_prev_for_var (sl : list (option A)) (p v : nat) : option (nat * nat) := last_lt fst p (g_ops_on_var vf sl v).
Definition g_next_for_var (sl : list (option A)) (p v : nat) : option (nat * nat) := first_gt fst p (g_ops_on_var vf sl v).
Definition g_first_for_var (sl : list (option A)) (v : nat) : option (nat * nat) := hd_error (g_ops_on_var vf sl v).
Definition g_last_for_var (sl : list (option A)) (v : nat) : option (nat * nat) := hd_error (rev (g_ops_on_var vf sl v)).
Definition g_var_has_ops (sl : list (option A)) (v : nat) : bool :=
  match g_ops_on_var vf sl v with [] => false | _ => true end.

Definition g_get (sl : list (option A)) (p : nat) : option A :=
  match nth_error sl p with Some (Some o) => Some o | _ => None end.

(* periodic neighbours along a world line *)
Definition g_prev_wrap (sl : list (option A)) (p v : nat) : option (nat * nat) :=
  match g_prev_for_var sl p v with Some x => Some x | None => g_last_for_var sl v end.
Definition g_next_wrap (sl : list (option A)) (p v : nat) : option (nat * nat) :=
  match g_next_for_var sl p v with Some x => Some x | None => g_first_for_var sl v end.
End GenericNav.

(* operator-string instances *)
Definition ops_on_var := g_ops_on_var o_vars.
Definition occupied : slots -> list nat := g_occupied.
Definition prev_p : slots -> nat -> option nat := g_prev_p.
Definition next_p : slots -> nat -> option nat := g_next_p.
Definition first_p : slots -> option nat := g_first_p.
Definition last_p : slots -> option nat := g_last_p.
Definition prev_for_var := g_prev_for_var o_vars.
Definition next_for_var := g_next_for_var o_vars.
Definition first_for_var := g_first_for_var o_vars.
Definition last_for_var := g_last_for_var o_vars.
Definition var_has_ops := g_var_has_ops o_vars.
Definition get_op : slots -> nat -> option op := g_get.
Definition prev_wrap := g_prev_wrap o_vars.
Definition next_wrap := g_next_wrap o_vars.

(* skeleton instances *)
Definition skel := (list nat * nat * bool)%type.
Definition sk_vars (k : skel) : list nat := fst (fst k).
Definition sk_const (k : skel) : bool := snd k.
