(* Diagonal updates (qmc_traits/diagonal.rs, qmc_traits/heatbath.rs) as probabilistic programs.
   Model file: definitions only. *)
From Coq Require Import List QArith ZArith NArith Bool Arith.
From QmcV Require Import Model.Prog Model.Sse.
Import ListNotations.
Open Scope Q_scope.

Definition Qnat (n : nat) : Q := Z.of_nat n # 1.

Definition diag_weight (H : ham) (b : nat) (st : state) : Q :=
  let sub := read_vals st (h_vars H b) in h_weight H b sub sub.

(* ---------------- Metropolis (metropolis_single_diagonal_update) ---------------- *)
Definition met_slot (H : ham) (L n : nat) (beta : Q) (st : state) (o : option op)
  : prog (option op * state) :=
  match o with
  | None =>
      Unif (N.of_nat (h_nbonds H)) (fun bN =>
        let b := N.to_nat bN in
        let num := beta * Qnat (h_nbonds H) * diag_weight H b st in
        let den := Qnat (L - n) in
        BernRatio num den (fun acc =>
          Ret (if acc then Some (mk_diag H b st) else None, st)))
  | Some op =>
      if is_diag op then
        let b := o_bond op in
        let num := beta * Qnat (h_nbonds H) * diag_weight H b st in
        let den := Qnat (L - n) + 1 in
        BernRatio den num (fun rm => Ret (if rm then None else Some op, st))
      else Ret (Some op, apply_op st op)
  end.

(* ---------------- Heat bath (heat_bath_single_diagonal_update) ---------------- *)
(* make_bond_weights: per bond, the maximum diagonal weight over all sub-states *)
Fixpoint all_substates (k : nat) : list (list bool) :=
  match k with
  | O => [[]]
  | S k' => flat_map (fun s => [false :: s; true :: s]) (all_substates k')
  end.

Definition qmax_list (l : list Q) : Q :=
  fold_left (fun acc w => if Qlt_bool acc w then w else acc) l 0.

Definition max_weight (H : ham) (b : nat) : Q :=
  qmax_list (map (fun s => h_weight H b s s) (all_substates (length (h_vars H b)))).

Definition bond_weights (H : ham) : list Q := map (max_weight H) (seq 0 (h_nbonds H)).

Definition hb_slot (H : ham) (bw : list Q) (L n : nat) (beta : Q) (st : state) (o : option op)
  : prog (option op * state) :=
  let W := Qsum bw in
  match o with
  | None =>
      let num := beta * W in
      let den := Qnat (L - n) + num in
      Bern (num / den) (fun ins =>
        if ins then
          ChooseAcc (map (fun '(b, mw) => (mw, diag_weight H b st)) (combine (seq 0 (length bw)) bw))
                    (fun r => Ret (match r with
                                   | Some b => Some (mk_diag H b st)
                                   | None => None
                                   end, st))
        else Ret (None, st))
  | Some op =>
      if is_diag op then
        let num := Qnat (L - n) + 1 in
        let den := num + beta * W in
        Bern (num / den) (fun rm => Ret (if rm then None else Some op, st))
      else Ret (Some op, apply_op st op)
  end.

(* ---------------- Sweep (mutate_ps over 0..cutoff, n read live) ---------------- *)
Definition occ (o : option op) : nat := match o with Some _ => 1%nat | None => 0%nat end.

Fixpoint sweep (slot : nat -> state -> option op -> prog (option op * state))
         (n : nat) (st : state) (sl : slots) : prog (slots * nat * state) :=
  match sl with
  | [] => Ret ([], n, st)
  | o :: r =>
      bind (slot n st o) (fun '(o', st') =>
        let n' := (n - occ o + occ o')%nat in
        bind (sweep slot n' st' r) (fun '(r', n'', st'') => Ret (o' :: r', n'', st'')))
  end.

Definition pad (L : nat) (sl : slots) : slots := sl ++ repeat None (L - length sl).

(* a whole diagonal update at cutoff L: slots beyond L (if any) are left untouched *)
Definition diagonal_update (slot : nat -> nat -> state -> option op -> prog (option op * state))
           (L : nat) (st : state) (sl : slots) : prog (slots * nat * state) :=
  let sl' := pad L sl in
  let head := firstn L sl' in
  let tail := skipn L sl' in
  bind (sweep (slot L) (count_ops sl') st head) (fun '(h', n', st') => Ret (h' ++ tail, n', st')).

Definition met_update (H : ham) (beta : Q) :=
  diagonal_update (fun L n st o => met_slot H L n beta st o).
Definition hb_update (H : ham) (bw : list Q) (beta : Q) :=
  diagonal_update (fun L n st o => hb_slot H bw L n beta st o).

(* cutoff growth rule used by both samplers after a diagonal update (after the fix) *)
Definition next_cutoff (cutoff n : nat) : nat := Nat.max cutoff (n + n / 2 + 1).
