(* Directed-loop update (qmc_traits/directed_loop.rs).  Model file: definitions only. *)
From Coq Require Import List QArith ZArith NArith Bool Arith.
From QmcV Require Import Model.Prog Model.Sse Model.Nav Model.Cluster.
Import ListNotations.
Local Open Scope nat_scope.

Definition toggle (l : list bool) (k : nat) : list bool := set_nth l k (negb (nth k l false)).

(* adjust_states *)
Definition adjust (ins outs : list bool) (leg : nat * side) : list bool * list bool :=
  if snd leg then (ins, toggle outs (fst leg)) else (toggle ins (fst leg), outs).

Definition leg_weight (H : ham) (o : op) (entrance exit : nat * side) : Q :=
  let '(i1, o1) := adjust (o_in o) (o_out o) entrance in
  let '(i2, o2) := adjust i1 o1 exit in
  h_weight H (o_bond o) i2 o2.

Definition pass_through (o : op) (entrance exit : nat * side) : op :=
  let '(i1, o1) := adjust (o_in o) (o_out o) entrance in
  let '(i2, o2) := adjust i1 o1 exit in
  mkOp (o_vars o) (o_bond o) i2 o2 (o_const o).

Definition pl_eqb (a b : nat * (nat * side)) : bool := Nat.eqb (fst a) (fst b) && leg_eqb (snd a) (snd b).

(* loop_body iterated; fuel bounds the number of vertex visits (None = out of fuel / malformed) *)
Fixpoint loop_steps (fuel : nat) (H : ham) (init : nat * (nat * side)) (pos : nat) (entrance : nat * side)
         (sl : slots) (st : state) : prog (option (slots * state)) :=
  match fuel with
  | O => Ret None
  | S f =>
      match get_op sl pos with
      | None => Ret None
      | Some o =>
          let legs := all_legs (length (o_vars o)) in
          Choose (map (fun l => leg_weight H o entrance l) legs) (fun k =>
            let exit := nth k legs (0, Inputs) in
            let o' := pass_through o entrance exit in
            let sl' := set_nth sl pos (Some o') in
            if pl_eqb (pos, exit) init then Ret (Some (sl', st))
            else
              let var := nth (fst exit) (o_vars o') 0 in
              let direct := if snd exit then next_for_var sl' pos var else prev_for_var sl' pos var in
              let '(nxt, st') :=
                match direct with
                | Some x => (Some x, st)
                | None =>
                    (if snd exit then first_for_var sl' var else last_for_var sl' var,
                     set_nth st var (nth (fst exit) (if snd exit then o_out o' else o_in o') false))
                end in
              match nxt with
              | None => Ret None
              | Some (q, relq) =>
                  let ent := (relq, negb (snd exit)) in
                  if pl_eqb (q, ent) init then Ret (Some (sl', st'))
                  else loop_steps f H init q ent sl' st'
              end)
      end
  end.

(* the variable slots of all stored operators in imaginary-time order: (position, relative variable) *)
Definition var_slots (sl : slots) : list (nat * nat) :=
  flat_map (fun p => match get_op sl p with
                     | Some o => map (fun v => (p, v)) (seq 0 (length (o_vars o)))
                     | None => []
                     end) (occupied sl).

(* make_loop_update_with_rng(None, ...), after fix: the starting leg is uniform over the legs of ALL stored
   operators (one draw over the variable slots in time order, then the direction bit) *)
Definition loop_update (fuel : nat) (H : ham) (sl : slots) (st : state) : prog (option (slots * state)) :=
  let n := count_ops sl in
  if Nat.eqb n 0 then Ret (Some (sl, st))
  else
    let vs := var_slots sl in
    let tv := length vs in
    if Nat.eqb tv 0 then Ret (Some (sl, st))
    else
      Unif (N.of_nat tv) (fun rN =>
        let pv := nth (N.to_nat rN mod tv) vs (0, 0) in
        let p := fst pv in
        let v := snd pv in
        match get_op sl p with
        | None => Ret None
        | Some o =>
            if Nat.ltb v (length (o_vars o)) then
              Bit (fun b =>
                let leg := (v, if b then Inputs else Outputs) in
                loop_steps fuel H (p, leg) p leg sl st)
            else Ret None
        end).
