(* Hamiltonians: the Ising sampler's bond table and the generic sampler's
   Interaction type (constructors, lookup, classifications).
   Model file: definitions only. *)
From Coq Require Import List QArith ZArith NArith Bool Arith.
From QmcV Require Import Model.Sse.
Import ListNotations.
Open Scope Q_scope.

Definition Qabs' (q : Q) : Q := if Qle_bool 0 q then q else - q.

(* ------------------------------------------------------------------ *)
(* Ising sampler (qmc_ising.rs)                                        *)
Record ising := mkIsing {
  i_edges : list (nat * nat * Q);    (* ((a, b), J) *)
  i_gamma : Q;                       (* transverse field *)
  i_h : Q;                           (* longitudinal field *)
  i_nvars : nat
}.

Definition two_site (ins outs : list bool) (j : Q) : Q :=
  match ins, outs with
  | [a; b], [c; d] =>
      if Bool.eqb a c && Bool.eqb b d then
        Qabs' j + (if Bool.eqb a b then - j else j)
      else 0
  | _, _ => 0
  end.

Definition transverse_w (g : Q) : Q := g.

Definition longitudinal_w (ins outs : list bool) (h : Q) : Q :=
  match ins, outs with
  | [a], [b] =>
      Qabs' h + (if Bool.eqb a b then (if a then h else - h) else 0)
  | _, _ => 0
  end.

Definition has_long (g : ising) : bool := negb (Qeq_bool (i_h g) 0).

Definition ising_nbonds (g : ising) : nat :=
  (length (i_edges g) + i_nvars g + (if has_long g then i_nvars g else 0))%nat.

Definition ising_vars (g : ising) (b : nat) : list nat :=
  let ne := length (i_edges g) in
  if Nat.ltb b ne then
    match nth_error (i_edges g) b with
    | Some (x, y, _) => [x; y]
    | None => []
    end
  else if Nat.ltb b (ne + i_nvars g)%nat then [(b - ne)%nat]
  else [(b - ne - i_nvars g)%nat].

Definition ising_const (g : ising) (b : nat) : bool :=
  let ne := length (i_edges g) in
  negb (Nat.ltb b ne) && Nat.ltb b (ne + i_nvars g)%nat.

Definition ising_weight (g : ising) (b : nat) (ins outs : list bool) : Q :=
  let ne := length (i_edges g) in
  if Nat.ltb b ne then
    match nth_error (i_edges g) b with
    | Some (_, _, j) => two_site ins outs j
    | None => 0
    end
  else if Nat.ltb b (ne + i_nvars g)%nat then transverse_w (i_gamma g)
  else longitudinal_w ins outs (i_h g).

Definition ising_ham (g : ising) : ham :=
  mkHam (ising_nbonds g) (ising_vars g) (ising_const g) (ising_weight g).

Definition ising_offset (g : ising) : Q :=
  fold_right (fun '(_, _, j) acc => Qabs' j + acc) 0 (i_edges g)
  + (Z.of_nat (i_nvars g) # 1) * (i_gamma g + Qabs' (i_h g)).

(* ------------------------------------------------------------------ *)
(* Generic interactions (qmc_runner.rs)                                *)
Inductive itype := IFull (constant : bool) | IDiag.

Record interaction := mkInter {
  it_type : itype;
  it_mat : list Q;
  it_n : nat;
  it_vars : list nat;
  it_cdiag : bool          (* constant_along_diagonal *)
}.

(* get_power_of_two: Some i iff 2^i = n *)
Definition power_of_two (n : nat) : option nat :=
  let i := Nat.log2 n in
  if Nat.eqb (2 ^ i)%nat n then Some i else None.

(* get_mat_var_size (after the parity fix): Some k iff 4^k = n *)
Definition mat_var_size (n : nat) : option nat :=
  match power_of_two n with
  | Some i => if Nat.even i then Some (Nat.div2 i) else None
  | None => None
  end.

(* the chained |old - item| < eps fold: consecutive entries equal *)
Fixpoint all_same_from (prev : Q) (l : list Q) : bool :=
  match l with
  | [] => true
  | x :: r => Qeq_bool prev x && all_same_from x r
  end.

Definition all_same (l : list Q) : bool :=
  match l with [] => true | x :: r => all_same_from x r end.

Definition has_negative (l : list Q) : bool := existsb (fun q => negb (Qle_bool 0 q)) l.

Definition diag_entries (n : nat) (mat : list Q) : list Q :=
  map (fun row => nth (row * 2 ^ n + row)%nat mat 0) (seq 0 (2 ^ n)%nat).

Inductive ctor_result := COk (i : interaction) | CErr.

Definition new_full (mat : list Q) (vars : list nat) : ctor_result :=
  if has_negative mat then CErr
  else match mat_var_size (length mat) with
       | None => CErr
       | Some n =>
           if negb (Nat.eqb n (length vars)) then CErr
           else COk (mkInter (IFull (all_same mat)) mat n vars (all_same (diag_entries n mat)))
       end.

Definition new_diag (mat : list Q) (vars : list nat) : ctor_result :=
  if has_negative mat then CErr
  else match power_of_two (length mat) with
       | None => CErr
       | Some n =>
           if Nat.eqb n (length vars)
           then COk (mkInter IDiag mat n vars (all_same mat))
           else CErr
       end.

Definition qmin_list (l : list Q) (init : Q) : Q :=
  fold_left (fun acc x => if negb (Qle_bool x acc) then acc else x) l init.

(* returns the interaction and the subtracted minimum; the f64::MAX seed of the
   fold is irrelevant for non-empty input and empty input is rejected anyway *)
Definition new_diag_offset (mat : list Q) (vars : list nat) : ctor_result * Q :=
  match mat with
  | [] => (CErr, 0)
  | x :: r =>
      let m := qmin_list r x in
      (new_diag (map (fun q => q - m) mat) vars, m)
  end.

Definition sub_diag (n : nat) (m : Q) (mat : list Q) : list Q :=
  let tn := (2 ^ n)%nat in
  map (fun '(i, q) => if (Nat.eqb (i mod (tn + 1))%nat 0 && Nat.ltb (i / (tn + 1))%nat tn) then q - m else q)
      (combine (seq 0 (length mat)) mat).

Definition new_full_offset (mat : list Q) (vars : list nat) : ctor_result * Q :=
  match mat_var_size (length mat) with
  | None => (CErr, 0)
  | Some n =>
      match diag_entries n mat with
      | [] => (CErr, 0)
      | x :: r =>
          let m := qmin_list r x in
          (new_full (sub_diag n m mat) vars, m)
      end
  end.

(* index_from_iter: big-endian bits, first element most significant *)
Definition index_of_bits (bs : list bool) : nat :=
  fold_left (fun acc (b : bool) => (2 * acc + (if b then 1 else 0))%nat) bs 0%nat.

Definition index_from_state (ins outs : list bool) : nat := index_of_bits (outs ++ ins).

(* Interaction::at ; None = Err *)
Definition inter_at (i : interaction) (ins outs : list bool) : option Q :=
  if negb (Nat.eqb (length ins) (it_n i) && Nat.eqb (length outs) (it_n i)) then None
  else match it_type i with
       | IFull true => Some (nth 0 (it_mat i) 0)
       | IFull false => nth_error (it_mat i) (index_from_state ins outs)
       | IDiag =>
           if bools_eqb ins outs then nth_error (it_mat i) (index_of_bits ins)
           else Some 0
       end.

Definition is_constant (i : interaction) : bool :=
  match it_type i with IFull true => true | _ => false end.

Definition is_constant_diag (i : interaction) : bool := it_cdiag i.

(* sym_under_ising (after the scan-range fix): every index against its complement *)
Definition sym_scan (mat : list Q) : bool :=
  let len := length mat in
  forallb (fun idx => Qeq_bool (nth idx mat 0) (nth (len - 1 - idx)%nat mat 0)) (seq 0 len).

Definition sym_under_ising (i : interaction) : bool :=
  match it_type i with
  | IFull true => true
  | IFull false => sym_scan (it_mat i)
  | IDiag => if it_cdiag i then true else sym_scan (it_mat i)
  end.

Definition inter_weight (bonds : list interaction) (b : nat) (ins outs : list bool) : Q :=
  match nth_error bonds b with
  | Some i => match inter_at i ins outs with Some q => q | None => 0 end
  | None => 0
  end.

Definition qmc_ham (bonds : list interaction) : ham :=
  mkHam (length bonds)
        (fun b => match nth_error bonds b with Some i => it_vars i | None => [] end)
        (fun b => match nth_error bonds b with Some i => is_constant i | None => false end)
        (inter_weight bonds).

(* flags maintained by Qmc::add_interaction *)
Definition has_cluster_edges (bonds : list interaction) : bool :=
  existsb (fun i => is_constant i && Nat.eqb (length (it_vars i)) 1) bonds.
Definition breaks_ising (bonds : list interaction) : bool :=
  existsb (fun i => negb (sym_under_ising i)) bonds.
Definition should_cluster (bonds : list interaction) : bool :=
  negb (breaks_ising bonds) && has_cluster_edges bonds.
