(* Executable validator for cluster labellings (C09).
   A labelling [b : bounds] gives, for every slot position p, the cluster number of the input
   side and of the output side of the op stored at p ([bget b p]).  [links_ok] checks that the
   labelling is compatible with the periodic world lines; [sides_ok] that only cluster edges
   separate two clusters.  Model file: definitions only. *)
From Coq Require Import List Bool Arith.
From QmcV Require Import Model.Sse Model.Nav Model.Cluster.
Import ListNotations.
Local Open Scope nat_scope.

(* ---------------- per-variable label map ---------------- *)
(* lab[v] = label of the output side of the last op seen on variable v *)
Definition labels := list (option nat).

Definition lget (lab : labels) (v : nat) : option nat := nth v lab None.

(* lab[v] := Some x, extending the list with None when it is too short *)
Fixpoint lput (lab : labels) (v x : nat) : labels :=
  match v with
  | O => Some x :: tl lab
  | S j => hd None lab :: lput (tl lab) j x
  end.

Definition lput_all (lab : labels) (vs : list nat) (x : nat) : labels :=
  fold_left (fun l v => lput l v x) vs lab.

Definition onat_eqb (a b : option nat) : bool :=
  match a, b with
  | Some x, Some y => Nat.eqb x y
  | None, None => true
  | _, _ => false
  end.

(* The walks consume the labelling in step with the slots: at slot position p the head of the
   remaining labelling is [bget b p] ((None, None) once the labelling is exhausted). *)
Definition bhd (b : bounds) : option nat * option nat := hd (None, None) b.

Definition unlabelled (ab : option nat * option nat) : bool :=
  match ab with (None, None) => true | _ => false end.

(* wrap-around labels: the output-side label of the LAST op on each variable *)
Fixpoint out_labels (sl : slots) (b : bounds) (lab : labels) : labels :=
  match sl with
  | [] => lab
  | None :: r => out_labels r (tl b) lab
  | Some o :: r =>
      match snd (bhd b) with
      | Some c => out_labels r (tl b) (lput_all lab (o_vars o) c)
      | None => out_labels r (tl b) lab
      end
  end.

(* the single left-to-right walk: shape of the labelling and world-line links;
   returns the final label map *)
Fixpoint links_walk (sl : slots) (b : bounds) (lab : labels) : option labels :=
  match sl with
  | [] => if forallb unlabelled b then Some lab else None
  | None :: r =>
      match bhd b with
      | (None, None) => links_walk r (tl b) lab
      | _ => None
      end
  | Some o :: r =>
      match bhd b with
      | (Some a, Some c) =>
          if forallb (fun v => onat_eqb (lget lab v) (Some a)) (o_vars o)
          then links_walk r (tl b) (lput_all lab (o_vars o) c)
          else None
      | _ => None
      end
  end.

Definition links_ok (sl : slots) (b : bounds) : bool :=
  match links_walk sl b (out_labels sl b []) with
  | Some _ => true
  | None => false
  end.

(* every non-edge op has its two sides in the same cluster *)
Fixpoint sides_ok (sl : slots) (b : bounds) : bool :=
  match sl with
  | [] => true
  | None :: r => sides_ok r (tl b)
  | Some o :: r =>
      (is_edge o || onat_eqb (fst (bhd b)) (snd (bhd b))) && sides_ok r (tl b)
  end.

(* every variable of every stored op indexes into a state of length n *)
Definition vars_in_range (n : nat) (sl : slots) : bool :=
  forallb (fun s => match s with
                    | Some o => forallb (fun v => Nat.ltb v n) (o_vars o)
                    | None => true
                    end) sl.

(* bundled well-formedness of the stored ops w.r.t. a state of length n: variables in range and
   pairwise distinct, one input and one output value per variable *)
Fixpoint nodupb (l : list nat) : bool :=
  match l with
  | [] => true
  | x :: r => negb (existsb (Nat.eqb x) r) && nodupb r
  end.

Definition op_wellformed (n : nat) (o : op) : bool :=
  forallb (fun v => Nat.ltb v n) (o_vars o)
  && nodupb (o_vars o)
  && Nat.eqb (length (o_in o)) (length (o_vars o))
  && Nat.eqb (length (o_out o)) (length (o_vars o)).

Definition ops_wellformed (n : nat) (sl : slots) : bool :=
  forallb (fun s => match s with Some o => op_wellformed n o | None => true end) sl.
