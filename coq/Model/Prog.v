(* Probabilistic programs: one term, two interpretations.

   [denote]   exact finite distribution over Q (used by the theorems)
   [run_tape] replay on the raw RNG words the implementation consumed, decoding
              them exactly as rand 0.8.8 does (used by the correspondence check)

   Model file: definitions only, no proofs. *)
From Coq Require Import List QArith ZArith NArith Bool Lia.
Import ListNotations.
Open Scope Q_scope.

Set Implicit Arguments.

(* ------------------------------------------------------------------ *)
(* Raw RNG words as logged by the harness' TapeRng.                    *)
Inductive word := W64 (v : N) | W32 (v : N).

(* ------------------------------------------------------------------ *)
(* Draw primitives (each mirrors one rand 0.8.8 call pattern).         *)
Inductive prog (A : Type) : Type :=
| Ret (a : A)
(* rng.gen_range(0..k) on usize: one u64 (plus rejection re-draws) *)
| Unif (k : N) (f : N -> prog A)
(* rng.gen_range(0..k) on u8: one u32 (plus rejection re-draws) *)
| Unif8 (k : N) (f : N -> prog A)
(* rng.gen_bool(p): no word when p >= 1 (p == 1.0), else one u64 *)
| Bern (p : Q) (f : bool -> prog A)
(* `num > den || rng.gen_bool(num / den)` (the clipped Metropolis form) *)
| BernRatio (num den : Q) (f : bool -> prog A)
(* rng.gen::<bool>(): sign bit of one u32 *)
| Bit (f : bool -> prog A)
(* c = rng.gen_range(0. ..total ws); pick the first index whose cumulative weight exceeds c *)
| Choose (ws : list Q) (f : nat -> prog A)
(* heat-bath proposal: p = rng.gen_range(0. ..1.0); then a Choose over (map fst cands);
   accept candidate i iff p * fst < snd.   cands = [(maxweight_i, weight_i)] *)
| ChooseAcc (cands : list (Q * Q)) (f : option nat -> prog A)
(* `rng.gen::<f64>() < chance` where chance is only known to lie in [lo, hi] *)
| BernF (lo hi : Q) (f : bool -> prog A)
(* rng.next_u64().trailing_ones(): n with probability 2^-(n+1), n = 64 with 2^-64 (rvb.rs contiguous_bits) *)
| TrailOnes (f : N -> prog A)
(* `p >= 1.0 || rng.gen_bool(p)` where p is an f64 product whose exact value is p; [sure] = the f64
   computation is known to be exact (no rounding), otherwise a value within tolerance of 1 is
   indeterminate because the implementation may or may not draw a word *)
| BernX (sure : bool) (p : Q) (f : bool -> prog A).

Arguments Ret {A} a.

Fixpoint bind {A B} (m : prog A) (k : A -> prog B) : prog B :=
  match m with
  | Ret a => k a
  | Unif n f => Unif n (fun i => bind (f i) k)
  | Unif8 n f => Unif8 n (fun i => bind (f i) k)
  | Bern p f => Bern p (fun b => bind (f b) k)
  | BernRatio a b f => BernRatio a b (fun x => bind (f x) k)
  | Bit f => Bit (fun b => bind (f b) k)
  | Choose ws f => Choose ws (fun i => bind (f i) k)
  | ChooseAcc cs f => ChooseAcc cs (fun i => bind (f i) k)
  | BernF lo hi f => BernF lo hi (fun b => bind (f b) k)
  | TrailOnes f => TrailOnes (fun n => bind (f n) k)
  | BernX s p f => BernX s p (fun b => bind (f b) k)
  end.

Notation "x <- m ;; k" := (bind m (fun x => k)) (at level 61, m at next level, right associativity).

(* ------------------------------------------------------------------ *)
(* Exact denotation.                                                   *)
Definition dist (A : Type) := list (Q * A).

Definition dscale {A} (q : Q) (d : dist A) : dist A := map (fun '(p, a) => (q * p, a)) d.

Definition Qsum (l : list Q) : Q := fold_right Qplus 0 l.

Definition qmin1 (q : Q) : Q := if Qle_bool 1 q then 1 else q.
Definition qclip (q : Q) : Q := if Qle_bool q 0 then 0 else qmin1 q.

(* probability that the clipped ratio form fires *)
Definition ratio_prob (num den : Q) : Q :=
  if Qle_bool num den then (if Qle_bool den 0 then 1 else qclip (num / den)) else 1.

Fixpoint qpow2 (n : nat) : Q := match n with O => 1 | S k => 2 * qpow2 k end.

Fixpoint denote {A} (m : prog A) : dist A :=
  match m with
  | Ret a => [(1, a)]
  | Unif k f =>
      flat_map (fun i => dscale (1 / (Z.of_N k # 1)) (denote (f (N.of_nat i)))) (seq 0 (N.to_nat k))
  | Unif8 k f =>
      flat_map (fun i => dscale (1 / (Z.of_N k # 1)) (denote (f (N.of_nat i)))) (seq 0 (N.to_nat k))
  | Bern p f =>
      dscale (qclip p) (denote (f true)) ++ dscale (1 - qclip p) (denote (f false))
  | BernRatio a b f =>
      dscale (ratio_prob a b) (denote (f true)) ++ dscale (1 - ratio_prob a b) (denote (f false))
  | Bit f => dscale (1 # 2) (denote (f true)) ++ dscale (1 # 2) (denote (f false))
  | Choose ws f =>
      flat_map (fun i => dscale (nth i ws 0 / Qsum ws) (denote (f i))) (seq 0 (length ws))
  | ChooseAcc cs f =>
      let W := Qsum (map fst cs) in
      flat_map (fun i =>
                  let '(mw, w) := nth i cs (0, 0) in
                  let acc := if Qle_bool mw 0 then 0 else qclip (w / mw) in
                  dscale (mw / W * acc) (denote (f (Some i)))
                  ++ dscale (mw / W * (1 - acc)) (denote (f None)))
               (seq 0 (length cs))
  | BernF lo hi f =>
      (* only meaningful when lo == hi; theorems instantiate it that way *)
      dscale (qclip lo) (denote (f true)) ++ dscale (1 - qclip lo) (denote (f false))
  | TrailOnes f =>
      flat_map (fun i => dscale (1 / qpow2 (S i)) (denote (f (N.of_nat i)))) (seq 0 64)
      ++ dscale (1 / qpow2 64) (denote (f 64%N))
  | BernX _ p f =>
      dscale (qclip p) (denote (f true)) ++ dscale (1 - qclip p) (denote (f false))
  end.

(* probability mass of the outcomes satisfying a boolean predicate *)
Definition mass {A} (P : A -> bool) (d : dist A) : Q :=
  Qsum (map (fun '(p, a) => if P a then p else 0) d).

Definition total {A} (d : dist A) : Q := mass (fun _ => true) d.

(* ------------------------------------------------------------------ *)
(* Tape replay.                                                        *)
Inductive res (A : Type) :=
| RDone (a : A) (rest : list word)
| RIndet                      (* a word lies within tolerance of a decision boundary *)
| RBad (code : N).            (* draw structure differs: wrong word kind / tape exhausted *)
Arguments RIndet {A}.
Arguments RBad {A} code.

Definition two64 : N := 18446744073709551616%N.
Definition two32 : N := 4294967296%N.
Definition two52 : N := 4503599627370496%N.
Definition two53 : N := 9007199254740992%N.
(* tolerance: 2^-40 *)
Definition tolden : Q := 1 # 1099511627776.

Definition Nq (n : N) : Q := Z.of_N n # 1.

(* leading zeros of a w-bit value *)
Definition lzcnt (w : N) (x : N) : N := (w - N.size x)%N.

(* one accepted integer draw: returns (hi, accepted) for v * range over width 2^w *)
Definition wmul_hi_lo (modulus v range : N) : N * N :=
  let m := (v * range)%N in (m / modulus, m mod modulus)%N.

Definition zone64 (range : N) : N :=
  ((N.shiftl range (lzcnt 64 range)) mod two64 - 1)%N.

(* u8 ranges use the exact modulus zone on u32 *)
Definition zone8 (range : N) : N :=
  let umax := (two32 - 1)%N in
  (umax - ((umax - range + 1) mod range))%N.

(* rejection loop, fuelled by the tape itself *)
Fixpoint unif64 (range : N) (tape : list word) : option (N * list word) + N :=
  match tape with
  | [] => inr 1%N
  | W64 v :: rest =>
      let '(hi, lo) := wmul_hi_lo two64 v range in
      if (lo <=? zone64 range)%N then inl (Some (hi, rest)) else unif64 range rest
  | W32 _ :: _ => inr 2%N
  end.

Fixpoint unif8 (range : N) (tape : list word) : option (N * list word) + N :=
  match tape with
  | [] => inr 1%N
  | W32 v :: rest =>
      let '(hi, lo) := wmul_hi_lo two32 v range in
      if (lo <=? zone8 range)%N then inl (Some (hi, rest)) else unif8 range rest
  | W64 _ :: _ => inr 3%N
  end.

(* decision "u < p" for u = v / 2^bits, with an indeterminate band of 2^-40 (abs + rel) *)
Inductive tri := TYes | TNo | TMaybe.

Definition Qlt_bool (x y : Q) : bool := negb (Qle_bool y x).

Definition cmp_tol (x y : Q) : tri :=
  (* is x < y ?  (x, y >= 0) *)
  let tol := tolden * (1 + y) in
  if Qlt_bool (x + tol) y then TYes
  else if Qle_bool (y + tol) x then TNo
  else TMaybe.

Definition u64_to_unit (v : N) : Q := Z.of_N v # 18446744073709551616.
Definition u52_to_unit (v : N) : Q := Z.of_N (v / 4096) # 4503599627370496.
Definition u53_to_unit (v : N) : Q := Z.of_N (v / 2048) # 9007199254740992.

Fixpoint cum_index (ws : list Q) (x : Q) (i : nat) : option nat + unit :=
  (* first index whose cumulative weight exceeds x; indeterminate near a boundary *)
  match ws with
  | [] => inr tt
  | w :: rest =>
      match cmp_tol x w with
      | TYes => inl (Some i)
      | TMaybe => inr tt
      | TNo => match rest with
               | [] => inr tt
               | _ => cum_index rest (x - w) (S i)
               end
      end
  end.

(* number of trailing one bits *)
Fixpoint trailing_ones_pos (p : positive) : N :=
  match p with
  | xI q => N.succ (trailing_ones_pos q)
  | xO _ => 0%N
  | xH => 1%N
  end.
Definition trailing_ones (v : N) : N := match v with N0 => 0%N | Npos p => trailing_ones_pos p end.

Fixpoint run_tape {A} (m : prog A) (tape : list word) : res A :=
  match m with
  | Ret a => RDone a tape
  | Unif k f =>
      match unif64 k tape with
      | inl (Some (i, rest)) => run_tape (f i) rest
      | inl None => RBad 9
      | inr c => RBad c
      end
  | Unif8 k f =>
      match unif8 k tape with
      | inl (Some (i, rest)) => run_tape (f i) rest
      | inl None => RBad 9
      | inr c => RBad c
      end
  | Bern p f =>
      if Qle_bool 1 p then run_tape (f true) tape
      else match tape with
           | W64 v :: rest =>
               match cmp_tol (u64_to_unit v) p with
               | TYes => run_tape (f true) rest
               | TNo => run_tape (f false) rest
               | TMaybe => RIndet
               end
           | [] => RBad 1
           | _ => RBad 2
           end
  | BernRatio a b f =>
      if negb (Qle_bool a b) then run_tape (f true) tape
      else if Qeq_bool a b then run_tape (f true) tape
      else match tape with
           | W64 v :: rest =>
               match cmp_tol (u64_to_unit v) (a / b) with
               | TYes => run_tape (f true) rest
               | TNo => run_tape (f false) rest
               | TMaybe => RIndet
               end
           | [] => RBad 1
           | _ => RBad 2
           end
  | Bit f =>
      match tape with
      | W32 v :: rest => run_tape (f (2147483648 <=? v)%N) rest
      | [] => RBad 1
      | _ => RBad 3
      end
  | Choose ws f =>
      match tape with
      | W64 v :: rest =>
          match cum_index ws (u52_to_unit v * Qsum ws) 0 with
          | inl (Some i) => run_tape (f i) rest
          | _ => RIndet
          end
      | [] => RBad 1
      | _ => RBad 2
      end
  | ChooseAcc cs f =>
      match tape with
      | W64 vp :: W64 vb :: rest =>
          let ws := map fst cs in
          match cum_index ws (u52_to_unit vb * Qsum ws) 0 with
          | inl (Some i) =>
              let '(mw, w) := nth i cs (0, 0) in
              match cmp_tol (u52_to_unit vp * mw) w with
              | TYes => run_tape (f (Some i)) rest
              | TNo => run_tape (f None) rest
              | TMaybe => RIndet
              end
          | _ => RIndet
          end
      | _ :: _ :: _ => RBad 2
      | _ => RBad 1
      end
  | BernF lo hi f =>
      match tape with
      | W64 v :: rest =>
          let u := u53_to_unit v in
          match cmp_tol u lo, cmp_tol u hi with
          | TYes, _ => run_tape (f true) rest
          | _, TNo => run_tape (f false) rest
          | _, _ => RIndet
          end
      | [] => RBad 1
      | _ => RBad 2
      end
  | TrailOnes f =>
      match tape with
      | W64 v :: rest => run_tape (f (trailing_ones v)) rest
      | [] => RBad 1
      | _ => RBad 2
      end
  | BernX sure p f =>
      if Qle_bool 1 p then
        (if sure || Qle_bool (1 + tolden) p then run_tape (f true) tape else RIndet)
      else if negb sure && Qlt_bool (1 - tolden) p then RIndet
      else match tape with
           | W64 v :: rest =>
               match cmp_tol (u64_to_unit v) p with
               | TYes => run_tape (f true) rest
               | TNo => run_tape (f false) rest
               | TMaybe => RIndet
               end
           | [] => RBad 1
           | _ => RBad 2
           end
  end.
