(* Classical Ising sampler (classical/graph.rs).  Model file: definitions only. *)
From Coq Require Import List QArith Qround ZArith NArith Bool Arith.
From QmcV Require Import Model.Prog Model.Sse.
Import ListNotations.
Open Scope Q_scope.

Record cgraph := mkCGraph {
  c_edges : list (nat * nat * Q);
  c_biases : list Q
}.

Definition spin (s : state) (i : nat) : Q := if nth i s false then 1 else -1.

(* reported energy, as the direct sum over edges and biases *)
Definition edge_energy (s : state) (e : nat * nat * Q) : Q :=
  let '(a, b, j) := e in j * spin s a * spin s b.

Definition energy (g : cgraph) (s : state) : Q :=
  fold_right (fun e acc => edge_energy s e + acc) 0 (c_edges g)
  - fold_right (fun '(i, b) acc => b * spin s i + acc) 0 (combine (seq 0 (length (c_biases g))) (c_biases g)).

(* adjacency lists as built by new_with_state_and_rng (before the stable sort by neighbour) *)
Definition adj (g : cgraph) (v : nat) : list (nat * Q) :=
  flat_map (fun '(a, b, j) =>
              (if Nat.eqb a v then [(b, j)] else []) ++ (if Nat.eqb b v then [(a, j)] else []))
           (c_edges g).

(* get_energy as coded: every edge is seen from both endpoints, halved *)
Definition energy_coded (g : cgraph) (s : state) : Q :=
  fold_right (fun i acc =>
                fold_right (fun '(o, j) a => j * (spin s i * spin s o) / 2 + a) 0 (adj g i)
                + (- nth i (c_biases g) 0 * spin s i) + acc)
             0 (seq 0 (length s)).

(* delta_e(v, omit): bond part of the energy change when flipping v, ignoring neighbour [omit] *)
Definition delta_e (g : cgraph) (s : state) (v : nat) (omit : option nat) : Q :=
  fold_right (fun '(o, j) a =>
                if (match omit with Some w => Nat.eqb o w | None => false end) then a
                else -2 * j * (spin s v * spin s o) + a)
             0 (adj g v).

Definition delta_spin (g : cgraph) (s : state) (i : nat) : Q :=
  delta_e g s i None + 2 * nth i (c_biases g) 0 * spin s i.

Definition delta_edge (g : cgraph) (s : state) (a b : nat) : Q :=
  (delta_e g s a (Some b) + 2 * nth a (c_biases g) 0 * spin s a)
  + (delta_e g s b (Some a) + 2 * nth b (c_biases g) 0 * spin s b).

Definition flip (s : state) (i : nat) : state := set_nth s i (negb (nth i s false)).

(* should_flip: dE <= 0 accepts without a draw; otherwise gen::<f64>() < exp(-beta dE);
   [acc] gives rational bounds (lo, hi) on that exponential *)
Definition should_flip {A} (acc : Q -> Q * Q) (beta dE : Q) (k : bool -> prog A) : prog A :=
  if Qle_bool dE 0 then k true
  else let '(lo, hi) := acc (beta * dE) in BernF lo hi k.

Definition spin_move (acc : Q -> Q * Q) (g : cgraph) (beta : Q) (s : state) : prog state :=
  Unif (N.of_nat (length s)) (fun iN =>
    let i := N.to_nat iN in
    should_flip acc beta (delta_spin g s i) (fun ok => Ret (if ok then flip s i else s))).

Definition Qabsq (q : Q) : Q := if Qle_bool 0 q then q else - q.

(* edge selection: uniform, or proportional to |J| with importance sampling (after the fix) *)
Definition edge_move (acc : Q -> Q * Q) (g : cgraph) (importance : bool) (beta : Q) (s : state) : prog state :=
  let body := fun k : nat =>
    match nth_error (c_edges g) k with
    | Some (a, b, _) =>
        should_flip acc beta (delta_edge g s a b) (fun ok => Ret (if ok then flip (flip s a) b else s))
    | None => Ret s
    end in
  if importance then Choose (map (fun '(_, _, j) => Qabsq j) (c_edges g)) body
  else Unif (N.of_nat (length (c_edges g))) (fun kN => body (N.to_nat kN)).

Fixpoint repeat_move (n : nat) (m : state -> prog state) (s : state) : prog state :=
  match n with
  | O => Ret s
  | S k => bind (m s) (repeat_move k m)
  end.

(* do_time_step with only_basic_moves = true: a u8 choice between spin and edge sweeps *)
Definition time_step (acc : Q -> Q * Q) (g : cgraph) (importance : bool) (beta : Q)
           (nspin nedge : nat) (s : state) : prog state :=
  Unif8 2 (fun c =>
    if N.eqb c 0 then repeat_move nspin (spin_move acc g beta) s
    else repeat_move nedge (edge_move acc g importance beta) s).

(* ---------------- rational bounds for exp(-x), x >= 0 ---------------- *)
(* Horner form of the alternating Taylor polynomial of degree n: 1 - x/1 (1 - x/2 (1 - ...)) *)
Fixpoint horner (x : Q) (k n : nat) : Q :=
  match n with
  | O => 1
  | S m => Qred (1 - x / (Z.of_nat k # 1) * horner x (S k) m)
  end.

(* consecutive partial sums of an alternating series with decreasing terms bracket the limit.
   Argument reduction: exp(-x) = exp(-x/2^k)^(2^k) with y = x/2^k <= 1/2; the Taylor bounds for
   exp(-y) (degrees 29 / 30) are converted to a fixed-point interval at scale 2^160 and squared
   k times with outward rounding. *)
Definition fp_scale : Z := Z.pow 2 160.

Definition q_floor_fp (q : Q) : Z := Qfloor (q * (fp_scale # 1)).
Definition q_ceil_fp (q : Q) : Z := Qceiling (q * (fp_scale # 1)).

Fixpoint square_k (k : nat) (lo hi : Z) : Z * Z :=
  match k with
  | O => (lo, hi)
  | S j => square_k j (Z.div (lo * lo) fp_scale) (Z.div (hi * hi + fp_scale - 1) fp_scale)
  end.

Definition exp_neg_bounds (x : Q) : Q * Q :=
  if Qle_bool 40 x then (0, 1 # 1099511627776)
  else if Qle_bool x 0 then (1, 1)
  else
    let k := Z.to_nat (Z.log2_up (Qceiling (2 * x))) in
    let y := x / ((Z.pow 2 (Z.of_nat k)) # 1) in
    let up := horner y 1 30 in
    let dn := horner y 1 29 in
    let '(lo, hi) := square_k k (q_floor_fp dn) (q_ceil_fp up) in
    (Qred ((Z.max lo 0) # 1) / (fp_scale # 1), Qred ((hi # 1) / (fp_scale # 1))).

(* ------------------------------------------------------------------ *)
(* The worm move (do_worm_flip, allow_doubles = true as called by do_time_step), transcribed.
   The neighbour lists are the ones the constructor builds: pushed in edge order, then
   stably sorted by neighbour index. *)
Fixpoint insert_adj (x : nat * Q) (l : list (nat * Q)) : list (nat * Q) :=
  match l with
  | [] => [x]
  | y :: r => if Nat.ltb (fst x) (fst y) then x :: l else y :: insert_adj x r
  end.
(* stable: equal keys keep their order (an element is inserted after the equal ones before it) *)
Definition adj_sorted (g : cgraph) (v : nat) : list (nat * Q) :=
  fold_left (fun acc x => insert_adj x acc) (adj g v) [].

Definition delta_e_sorted (g : cgraph) (s : state) (v : nat) (omit : option nat) : Q :=
  fold_right (fun '(o, j) a =>
                if (match omit with Some w => Nat.eqb o w | None => false end) then a
                else -2 * j * (spin s v * spin s o) + a)
             0 (adj_sorted g v).

Inductive wmove := WS (v : nat) | WD (a b : nat).

Definition worm_de (g : cgraph) (s : state) (m : wmove) : Q :=
  match m with
  | WS v => delta_e_sorted g s v None
  | WD a b => delta_e_sorted g s a (Some b) + delta_e_sorted g s b (Some a)
  end.

Definition wm_last (m : wmove) : nat := match m with WS v => v | WD _ v => v end.
Definition wm_apply (s : state) (m : wmove) : state :=
  match m with WS v => flip s v | WD a b => flip (flip s a) b end.
Definition wm_vars (m : wmove) : list nat := match m with WS v => [v] | WD a b => [a; b] end.

Definition qzero (q : Q) : bool := Qeq_bool q 0.

(* candidates collected while looking around [sel_var]: (move, de, resolves) in push order *)
Definition worm_candidates (g : cgraph) (s : state) (sel_var last_index : nat) (starting_e : Q)
  : list (wmove * Q * bool) :=
  flat_map
    (fun '(ov, _) =>
       if Nat.eqb ov last_index then []
       else
         let de := worm_de g s (WS ov) in
         let single :=
           if qzero de then [(WS ov, de, false)]
           else if qzero (de + starting_e) then [(WS ov, de, true)] else [] in
         let s' := flip s ov in
         let doubles :=
           flat_map
             (fun '(oov, _) =>
                if Nat.eqb oov ov || Nat.eqb oov sel_var then []
                else
                  let de2 := worm_de g s' (WS oov) + de in
                  if qzero de2 then [(WD ov oov, de2, false)]
                  else if qzero (de2 + starting_e) then [(WD ov oov, de2, true)] else [])
             (adj_sorted g ov) in
         single ++ doubles)
    (adj_sorted g sel_var).

(* the walk: returns (path, state, failed) *)
Fixpoint worm_walk (fuel : nat) (g : cgraph) (starting_e : Q) (path : list wmove) (sel_move : wmove)
         (last_index : nat) (s : state) : prog (list wmove * state * bool) :=
  match fuel with
  | O => Ret (path, s, true)
  | S f =>
      let sel_var := wm_last sel_move in
      let cands := worm_candidates g s sel_var last_index starting_e in
      let any_resolve := existsb (fun '(_, _, r) => r) cands in
      let stack := if any_resolve then filter (fun '(_, de, _) => qzero (de + starting_e)) cands else cands in
      let continue_with := fun (ov : wmove) (de : Q) =>
        let s' := wm_apply s ov in
        let path' := path ++ [ov] in
        let last' := match ov, sel_move with
                     | WS _, WS v => v
                     | WS _, WD _ v => v
                     | WD v _, _ => v
                     end in
        if qzero (de + starting_e) then Ret (path', s', false)
        else if Nat.ltb (length s) (length path') then Ret (path', s', true)
        else worm_walk f g starting_e path' ov last' s' in
      match stack with
      | [] =>
          let back := match sel_move with WS _ => sel_move | WD a b => WD b a end in
          continue_with back (worm_de g s back)
      | _ =>
          Unif (N.of_nat (length stack)) (fun cN =>
            match nth_error stack (N.to_nat cN) with
            | Some (ov, de, _) => continue_with ov de
            | None => Ret (path, s, true)
            end)
      end
  end.

Fixpoint insert_nat (x : nat) (l : list nat) : list nat :=
  match l with
  | [] => [x]
  | y :: r => if Nat.leb x y then x :: l else y :: insert_nat x r
  end.
Fixpoint drop_pairs (l : list nat) : list nat :=
  match l with
  | a :: r => match r with
              | b :: r' => if Nat.eqb a b then drop_pairs r' else a :: drop_pairs r
              | [] => [a]
              end
  | [] => []
  end.

Definition worm_move (acc : Q -> Q * Q) (g : cgraph) (beta : Q) (s : state) : prog state :=
  Unif (N.of_nat (length s)) (fun iN =>
    let start := N.to_nat iN in
    let starting_e := worm_de g s (WS start) in
    let s1 := flip s start in
    bind (worm_walk (S (length s)) g starting_e [WS start] (WS start) start s1) (fun '(path, s2, failed) =>
      let visited := drop_pairs (fold_right insert_nat [] (flat_map wm_vars path)) in
      let undo := fold_left flip visited s2 in
      if failed then Ret undo
      else
        (* the bias part of the energy change, evaluated on the spins AFTER flipping them *)
        let total_he := fold_right (fun v a => 2 * nth v (c_biases g) 0 * spin s2 v + a) 0 visited in
        should_flip acc beta total_he (fun ok => Ret (if ok then s2 else undo)))).

(* do_time_step with all three move sets offered (only_basic_moves = false) *)
Definition time_step_full (acc : Q -> Q * Q) (g : cgraph) (importance : bool) (beta : Q)
           (nspin nedge nworm : nat) (s : state) : prog state :=
  Unif8 3 (fun c =>
    if N.eqb c 0 then repeat_move nspin (spin_move acc g beta) s
    else if N.eqb c 1 then repeat_move nedge (edge_move acc g importance beta) s
    else repeat_move nworm (worm_move acc g beta) s).
