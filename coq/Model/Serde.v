(* Snapshot / restore through serde as a field-mode model (C14).  Definitions only.
   Each serialisable struct is a list of named fields; a field is serialised in full, as a count
   only (the pools of scratch buffers: `serde(with = "numeric_serialize")`), or skipped. *)
From Coq Require Import List String NArith Bool.
From QmcV Require Import Generated.SerdeFields.
Import ListNotations.

Inductive fval :=
| VData (d : list N)              (* any fully serialised payload *)
| VPool (bufs : list (list N)).   (* a pool of scratch buffers *)

Inductive sval := SData (d : list N) | SPool (bufs : list (list N)) | SCount (n : nat) | SNone.

Definition snap_field (m : fmode) (v : fval) : sval :=
  match m, v with
  | FFull, VData d => SData d
  | FFull, VPool b => SPool b
  | FCountOnly, VPool b => SCount (List.length b)
  | FCountOnly, VData d => SCount (List.length d)
  | _, _ => SNone
  end.

Definition restore_field (s : sval) : fval :=
  match s with
  | SData d => VData d
  | SPool b => VPool b
  | SCount n => VPool (repeat [] n)      (* numeric_serialize: n default (empty) buffers *)
  | SNone => VData []
  end.

Definition snapshot (modes : list fmode) (st : list fval) : list sval := map (fun '(m, v) => snap_field m v) (combine modes st).
Definition restore (s : list sval) : list fval := map restore_field s.

(* a field survives the round trip iff it is serialised in full, or it is a count-only pool whose
   buffers are all empty (pools hold reset buffers at every call boundary, C18) *)
Definition field_ok (m : fmode) (v : fval) : bool :=
  match m, v with
  | FFull, _ => true
  | FCountOnly, VPool b => forallb (fun x => match x with [] => true | _ => false end) b
  | _, _ => false
  end.

(* ---- checks over the field lists re-extracted from the source on this run ---- *)
Definition mode_ok (m : fmode) : bool := match m with FFull | FCountOnly => true | _ => false end.

Definition all_fields_serialised : bool :=
  forallb (fun '(_, fs) => forallb (fun '(_, m) => mode_ok m) fs) serde_structs.

Definition count_only_fields : list (string * string) :=
  flat_map (fun '(s, fs) => flat_map (fun '(f, m) => match m with FCountOnly => [(s, f)] | _ => [] end) fs) serde_structs.

Definition fields_of (name : string) : list string :=
  match find (fun '(s, _) => String.eqb s name) serde_structs with
  | Some (_, fs) => map fst fs
  | None => []
  end.

Definition subset (a b : list string) : bool := forallb (fun x => existsb (String.eqb x) b) a.

Definition without (xs : list string) (drop : list string) : list string :=
  filter (fun x => negb (existsb (String.eqb x) drop)) xs.

(* the RNG-less mirror carries every field of the sampler except the RNG ([vars] travels as [nvars]);
   both hand-written conversions mention every field of their target *)
Definition rngless_mirror_complete : bool :=
  let g := fields_of "QmcIsingGraph" in
  let m := fields_of "SerializeQmcGraph" in
  subset (without g ["rng"; "vars"]) m && subset (without m ["nvars"]) g
  && subset g rngless_into_fields && subset m rngless_from_fields
  && subset g ising_clone_fields.
