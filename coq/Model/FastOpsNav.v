(* Navigation through the linked container (fast_ops.rs LoopUpdater getters, the world-line walks
   RvbUpdater::constant_ops_on_var / spin_flips_on_var, the global walk used by find_constant_op /
   iterate_ops) and the cursor construction DiagonalSubsection::fill_args_at_p (SubvarAccess::All),
   transcribed on the node/link model of Model/FastOps.v.  Model file: definitions only. *)
From Coq Require Import List Bool Arith.
From QmcV Require Import Model.Sse Model.Nav Model.FastOps.
Import ListNotations.

(* LoopUpdater getters *)
Definition get_first_p (F : fops) : option nat := option_map fst (f_ends F).
Definition get_last_p (F : fops) : option nat := option_map snd (f_ends F).
Definition get_first_p_for_var (F : fops) (v : nat) : option prel := option_map fst (nth v (f_var_ends F) None).
Definition get_last_p_for_var (F : fops) (v : nat) : option prel := option_map snd (nth v (f_var_ends F) None).
Definition get_next_p_for_rel_var (nd : node) (relv : nat) : option prel := nth relv (n_next_v nd) None.
Definition get_previous_p_for_rel_var (nd : node) (relv : nat) : option prel := nth relv (n_prev_v nd) None.
Definition does_var_have_ops (F : fops) (v : nat) : bool :=
  match nth v (f_var_ends F) None with Some _ => true | None => false end.

(* while let Some(PRel{p, relv}) = p_and_rel { visit; p_and_rel = next_p_for_rel_var(relv, node) } *)
Fixpoint walk_var_from (fuel : nat) (F : fops) (cur : option prel) : list prel :=
  match fuel with
  | O => []
  | S f =>
      match cur with
      | None => []
      | Some (p, relv) =>
          match node_at (f_ops F) p with
          | None => []
          | Some nd => (p, relv) :: walk_var_from f F (get_next_p_for_rel_var nd relv)
          end
      end
  end.

(* all operators on the world line of v, as the linked structure enumerates them *)
Definition walk_var (F : fops) (v : nat) : list prel :=
  walk_var_from (S (length (f_ops F))) F (get_first_p_for_var F v).

(* RvbUpdater::constant_ops_on_var *)
Definition constant_ops_on_var (F : fops) (v : nat) : list nat :=
  flat_map (fun '(p, _) => match node_at (f_ops F) p with
                           | Some nd => if o_const (n_op nd) then [p] else []
                           | None => []
                           end) (walk_var F v).

(* the global walk: while let Some(p) = cur { visit; cur = node.next_p } *)
Fixpoint walk_p_from (fuel : nat) (F : fops) (cur : option nat) : list nat :=
  match fuel with
  | O => []
  | S f =>
      match cur with
      | None => []
      | Some p =>
          match node_at (f_ops F) p with
          | None => []
          | Some nd => p :: walk_p_from f F (n_next nd)
          end
      end
  end.
Definition walk_p (F : fops) : list nat := walk_p_from (S (length (f_ops F))) F (get_first_p F).

(* ------------------------------------------------------------------ *)
(* fill_args_at_p with SubvarAccess::All                               *)
Record fargs := mkFargs { fa_args : margs; fa_unfilled : nat }.

(* get_empty_args(SubvarAccess::All) *)
Definition empty_args (F : fops) : fargs :=
  mkFargs (mkArgs None (repeat None (length (f_var_ends F))))
          (length (filter (fun e => match e with Some _ => true | None => false end) (f_var_ends F))).

(* the closure applied to the node AT p: take its predecessors *)
Definition at_p_step (nd : node) (a : fargs) : fargs * bool :=
  let '(last, unf) :=
    fold_left (fun '(last, unf) '(v, prel) =>
                 match prel with
                 | Some pr => match nth v last None with
                              | None => (set_nth last v (Some pr), unf - 1)
                              | Some _ => (last, unf)
                              end
                 | None => (last, unf)
                 end)
              (combine (o_vars (n_op nd)) (n_prev_v nd)) (a_last (fa_args a), fa_unfilled a) in
  (mkFargs (mkArgs (n_prev nd) last) unf, Nat.ltb 0 unf).

(* the closure applied to every node above p *)
Definition above_step (p : nat) (nd : node) (a : fargs) : fargs * bool :=
  let lp := match a_last_p (fa_args a) with None => Some p | x => x end in
  let '(last, unf) :=
    fold_left (fun '(last, unf) '(relv, v) =>
                 match nth v last None with
                 | None => (set_nth last v (Some (p, relv)), unf - 1)
                 | Some _ => (last, unf)
                 end)
              (enumerate (o_vars (n_op nd))) (a_last (fa_args a), fa_unfilled a) in
  (mkFargs (mkArgs lp last) unf, Nat.ltb 0 unf).

Fixpoint walk_above (fuel : nat) (F : fops) (cur : option nat) (a : fargs) : fargs :=
  match fuel with
  | O => a
  | S f =>
      match cur with
      | None => a
      | Some q =>
          match node_at (f_ops F) q with
          | None => a
          | Some nd =>
              let '(a', c) := above_step q nd a in
              if c then walk_above f F (n_prev nd) a' else a'
          end
      end
  end.

(* let mut sel_p = p - 1; while prev_node.is_none() && sel_p > 0 { sel_p -= 1 } *)
Fixpoint nearest_below (F : fops) (q : nat) : option nat :=
  match node_at (f_ops F) q with
  | Some _ => Some q
  | None => match q with O => None | S q' => nearest_below F q' end
  end.

Definition fill_args_at_p (F : fops) (p : nat) : margs :=
  let a0 := empty_args F in
  (* no variable has operators: only the global predecessor is looked up (after fix 5d805dc; before it the
     cursor was returned with last_p = None) *)
  if Nat.eqb (fa_unfilled a0) 0
  then mkArgs (match p with O => None | S p' => nearest_below F p' end) (a_last (fa_args a0))
  else
    fa_args
      (match node_at (f_ops F) p with
       | Some nd =>
           let '(a1, c) := at_p_step nd a0 in
           if c then walk_above (S p) F (n_prev nd) a1 else a1
       | None =>
           match p with
           | O => a0
           | S p' => walk_above (S p) F (nearest_below F p') a0
           end
       end).

(* DiagonalSubsection::mutate_subsection(pstart, pend, .., None): resize, build the cursor, sweep *)
Definition mutate_subsection (F : fops) (pstart : nat) (decs : list (option (option op))) : fops :=
  let F1 := resize_ops F (pstart + length decs) in
  fst (sweep F1 (fill_args_at_p F1 pstart) pstart decs).

(* ------------------------------------------------------------------ *)
(* FastOpsTemplate::clear_and_install_ops (behind new_from_ops): one forward pass over (p, op) pairs
   given in increasing p; the tails of p_ends / var_ends are only fixed at the end *)
Definition cai_var (p : nat) (acc : fops * list (option prel) * list (option prel)) (rv : nat * nat)
  : fops * list (option prel) * list (option prel) :=
  let '(F, last, prevs) := acc in
  let '(relv, v) := rv in
  let last_tup := nth v last None in
  let F' :=
    match last_tup with
    | Some (lp, lrel) => set_ops F (set_next_v (f_ops F) lp lrel (Some (p, relv)))
    | None => set_var_ends F (set_nth (f_var_ends F) v (Some ((p, relv), (p, relv))))
    end in
  (F', set_nth last v (Some (p, relv)), prevs ++ [last_tup]).

Definition cai_step (acc : fops * option nat * list (option prel)) (po : nat * op)
  : fops * option nat * list (option prel) :=
  let '(F, last_p, last) := acc in
  let '(p, o) := po in
  let F1 :=
    match last_p with
    | Some lp => set_ops F (set_next_p (f_ops F) lp (Some p))
    | None => set_ends F (Some (p, p))
    end in
  let '(F2, last2, prevs) := fold_left (cai_var p) (enumerate (o_vars o)) (F1, last, []) in
  let nd := mkNode o last_p None prevs (repeat None (length (o_vars o))) in
  (set_n (set_ops F2 (set_nth (f_ops F2) p (Some nd))) (f_n F2 + 1), Some p, last2).

Definition clear_and_install (F : fops) (pos : list (nat * op)) : fops :=
  match pos with
  | [] => F
  | _ =>
      let nvars := length (f_var_ends F) in
      let opslen := S (fold_left Nat.max (map fst pos) 0) in
      let F0 := mkFops (repeat None opslen) (f_n F) None (repeat None nvars) (f_counters F) in
      let '(F1, last_p, last) := fold_left cai_step pos (F0, None, repeat None nvars) in
      let F2 :=
        match f_ends F1, last_p with
        | Some (h, _), Some lp => set_ends F1 (Some (h, lp))
        | _, _ => F1
        end in
      set_var_ends F2
        (map (fun '(ends, lastv) =>
                match ends, lastv with
                | Some (h, _), Some lv => Some (h, lv)
                | Some e, None => Some e
                | None, _ => None
                end) (combine (f_var_ends F2) last))
  end.

(* the slot array a list of (p, op) pairs describes *)
Definition slots_of (pos : list (nat * op)) : slots :=
  fold_left (fun sl '(p, o) => set_nth sl p (Some o)) pos
            (repeat None (S (fold_left Nat.max (map fst pos) 0))).
