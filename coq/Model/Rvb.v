(* Resonating-bond (RVB) cluster update: qmc_traits/rvb.rs, util/bondcontainer.rs and
   util/vec_help.rs transcribed.  The container is seen through its scan specification
   (Model/Nav.v; the linked structure refines it, Properties/C11.v): "constant operators on a
   variable" / "operators touching the sub-variables, in imaginary-time order" / "state propagated up
   to p" are computed from the slot array.  Everything else (region search, weighted boundary sets
   with swap-remove key order, overlap search, acceptance ratio, graph rewrite, order of RNG draws)
   follows the Rust code statement by statement.
   Model file: definitions only. *)
From Coq Require Import List QArith ZArith NArith Bool Arith.
From QmcV Require Import Model.Prog Model.Sse Model.Ham.
Import ListNotations.
Local Open Scope nat_scope.

(* ------------------------------------------------------------------ *)
(* util/bondcontainer.rs: a set with weights; [keys] order is observable through get_random *)
Section BondContainer.
  Variable T : Type.
  Variable idx : T -> nat.

  Definition bc := list (T * Q).

  Definition bc_total (c : bc) : Q := Qsum (map snd c).

  Fixpoint bc_find (c : bc) (k : nat) (i : nat) : option nat :=
    match c with
    | [] => None
    | (t, _) :: r => if Nat.eqb (idx t) k then Some i else bc_find r k (S i)
    end.

  Definition bc_contains (c : bc) (k : nat) : bool :=
    match bc_find c k 0 with Some _ => true | None => false end.

  Definition bc_weight (c : bc) (k : nat) : option Q :=
    match bc_find c k 0 with
    | Some i => option_map snd (nth_error c i)
    | None => None
    end.

  (* insert: overwrite the weight in place, or push *)
  Definition bc_insert (c : bc) (t : T) (w : Q) : bc :=
    match bc_find c (idx t) 0 with
    | Some i => match nth_error c i with
                | Some (t0, _) => set_nth c i (t0, w)
                | None => c
                end
    | None => c ++ [(t, w)]
    end.

  (* remove_index: swap with the last key, pop *)
  Definition bc_remove_index (c : bc) (i : nat) : bc :=
    match nth_error c (length c - 1) with
    | Some last => removelast (set_nth c i last)
    | None => c
    end.

  Definition bc_remove (c : bc) (k : nat) : bc :=
    match bc_find c k 0 with
    | Some i => bc_remove_index c i
    | None => c
    end.
End BondContainer.

Arguments bc_total {T} c.
Arguments bc_contains {T} idx c k.
Arguments bc_weight {T} idx c k.
Arguments bc_insert {T} idx c t w.
Arguments bc_remove {T} idx c k.
Arguments bc_remove_index {T} c i.

Definition id_idx (b : nat) : nat := b.

(* VarPos and its Into<usize> *)
Definition varpos := (nat * option nat)%type.
Definition vp_idx (vp : varpos) : nat := match snd vp with Some p => p | None => fst vp end.

(* ------------------------------------------------------------------ *)
(* util/vec_help.rs remove_doubles (input sorted): drop adjacent equal pairs *)
Fixpoint remove_doubles (l : list nat) : list nat :=
  match l with
  | a :: r =>
      match r with
      | b :: r' => if Nat.eqb a b then remove_doubles r' else a :: remove_doubles r
      | [] => [a]
      end
  | [] => []
  end.

(* ------------------------------------------------------------------ *)
(* small list helpers *)
Fixpoint filter_idx {A} (f : A -> bool) (l : list A) (i : nat) : list nat :=
  match l with
  | [] => []
  | x :: r => if f x then i :: filter_idx f r (S i) else filter_idx f r (S i)
  end.

Definition mem (v : nat) (l : list nat) : bool := existsb (Nat.eqb v) l.

Fixpoint index_of (v : nat) (l : list nat) (i : nat) : option nat :=
  match l with
  | [] => None
  | x :: r => if Nat.eqb x v then Some i else index_of v r (S i)
  end.

Fixpoint prefix_sums (l : list nat) (acc : nat) : list nat :=
  match l with
  | [] => []
  | x :: r => acc :: prefix_sums r (acc + x)
  end.

Fixpoint take_while {A} (f : A -> bool) (l : list A) : list A :=
  match l with
  | [] => []
  | x :: r => if f x then x :: take_while f r else []
  end.

Fixpoint insert_sorted (x : nat) (l : list nat) : list nat :=
  match l with
  | [] => [x]
  | y :: r => if Nat.leb x y then x :: l else y :: insert_sorted x r
  end.
Definition sort_nat (l : list nat) : list nat := fold_right insert_sorted [] l.

Definition count_true (l : list bool) : nat := length (filter (fun b => b) l).

Definition xor_lists (a b : list bool) : list bool :=
  map (fun '(x, y) => xorb x y) (combine a b).

(* ------------------------------------------------------------------ *)
(* EdgeNav of qmc_ising.rs *)
Definition edge_vars (g : ising) (b : nat) : nat * nat :=
  match nth_error (i_edges g) b with Some (x, y, _) => (x, y) | None => (0, 0) end.
Definition edge_j (g : ising) (b : nat) : Q :=
  match nth_error (i_edges g) b with Some (_, _, j) => j | None => 0%Q end.

Fixpoint bonds_for_var_from (es : list (nat * nat * Q)) (v : nat) (i : nat) : list nat :=
  match es with
  | [] => []
  | (x, y, _) :: r =>
      (if Nat.eqb x v then [i] else []) ++ (if Nat.eqb y v then [i] else [])
      ++ bonds_for_var_from r v (S i)
  end.
Definition bonds_for_var (g : ising) (v : nat) : list nat := bonds_for_var_from (i_edges g) v 0.

Definition other_var (g : ising) (v b : nat) : option nat :=
  let '(x, y) := edge_vars g b in
  if Nat.eqb v x then Some y else if Nat.eqb v y then Some x else None.

Definition bond_mag (g : ising) (b : nat) : Q := Qabs' (edge_j g b).

(* diagonal_edge_hamiltonian: weight of the diagonal two-site term of edge b *)
Definition dh (g : ising) (b : nat) (sa sb : bool) : Q := two_site [sa; sb] [sa; sb] (edge_j g b).

(* ising_ratio closure *)
Definition ising_ratio (g : ising) (o : op) : Q :=
  if has_long g then
    (if Nat.leb (length (i_edges g) + i_nvars g) (o_bond o) then 0%Q else 1%Q)
  else 1%Q.

(* ------------------------------------------------------------------ *)
(* find_constants *)
Definition is_const_on (v : nat) (s : option op) : bool :=
  match s with Some o => o_const o && mem v (o_vars o) | None => false end.

Record consts := mkConsts {
  c_starts : list nat;
  c_lengths : list nat;
  c_ps : list nat;
  c_zero : list nat
}.

Definition find_constants (nvars : nat) (sl : slots) : consts :=
  let per := map (fun v => filter_idx (is_const_on v) sl 0) (seq 0 nvars) in
  let lens := map (@length nat) per in
  mkConsts (prefix_sums lens 0) lens (concat per)
           (filter (fun v => Nat.eqb (nth v lens 0) 0) (seq 0 nvars)).

(* the variable a flip index belongs to: last v with var_starts[v] <= choice *)
Fixpoint last_le (starts : list nat) (c i best : nat) : nat :=
  match starts with
  | [] => best
  | s :: r => last_le r c (S i) (if Nat.leb s c then i else best)
  end.

(* ------------------------------------------------------------------ *)
(* WeightedBoundaryManager *)
Record wbm := mkWbm {
  w_flips : bc varpos;
  w_noflips : bc varpos;
  w_pos_popped : list nat;
  w_nopos_popped : list nat
}.

Definition wbm_new : wbm := mkWbm [] [] [] [].

Definition wbm_empty (m : wbm) : bool :=
  match w_flips m, w_noflips m with [], [] => true | _, _ => false end.

Definition push_adjacent (m : wbm) (var : nat) (pos : option nat) (weight : option Q) : wbm :=
  let w := match weight with Some w => w | None => 1%Q end in
  let vp := (var, pos) in
  let i := vp_idx vp in
  match pos with
  | Some _ =>
      if mem i (w_pos_popped m) then m
      else
        let w' := (match bc_weight vp_idx (w_flips m) i with Some x => x | None => 0%Q end + w)%Q in
        mkWbm (bc_insert vp_idx (w_flips m) vp w') (w_noflips m) (w_pos_popped m) (w_nopos_popped m)
  | None =>
      if mem i (w_nopos_popped m) then m
      else
        let w' := (match bc_weight vp_idx (w_noflips m) i with Some x => x | None => 0%Q end + w)%Q in
        mkWbm (w_flips m) (bc_insert vp_idx (w_noflips m) vp w') (w_pos_popped m) (w_nopos_popped m)
  end.

(* pop_index: gen_bool(flips / total), then a weighted draw from the chosen set *)
Definition pop_index (m : wbm) : prog (option (nat * option nat * wbm)) :=
  let tf := bc_total (w_flips m) in
  let tn := bc_total (w_noflips m) in
  if Qle_bool (tf + tn) 0 then Ret None
  else
    Bern (tf / (tf + tn)) (fun pick =>
      let c := if pick then w_flips m else w_noflips m in
      match c with
      | [] => Ret None
      | _ =>
          Choose (map snd c) (fun i =>
            match nth_error c i with
            | None => Ret None
            | Some (vp, _) =>
                let k := vp_idx vp in
                let c' := bc_remove vp_idx c k in
                Ret (Some (fst vp, snd vp,
                           if pick
                           then mkWbm c' (w_noflips m) (k :: w_pos_popped m) (w_nopos_popped m)
                           else mkWbm (w_flips m) c' (w_pos_popped m) (k :: w_nopos_popped m)))
            end)
      end).

(* ------------------------------------------------------------------ *)
(* find_overlapping_starts *)
Definition find_overlapping_starts (p_start p_end cutoff : nat) (fp : list nat) : list nat :=
  let n := length fp in
  let bin := length (filter (fun x => Nat.ltb x p_start) fp) in
  let prev := (bin + n - 1) mod n in
  let lowest := nth prev fp 0 in
  let ops := (p_start + cutoff - lowest) mod cutoff in
  let ope := (p_end + cutoff - lowest) mod cutoff in
  take_while
    (fun ip =>
       let p := nth ip fp 0 in
       let cs := (p + cutoff - lowest) mod cutoff in
       let next_p := nth ((ip + 1) mod n) fp 0 in
       let ce := (next_p + cutoff - lowest) mod cutoff in
       let hos := Nat.ltb cs ops && Nat.ltb ops ce in
       let hsw := Nat.ltb ops cs && Nat.ltb cs ope in
       let eq := Nat.eqb p_start p_end || Nat.eqb cs ce in
       eq || hos || hsw)
    (seq prev (n - prev) ++ seq 0 prev).

(* ------------------------------------------------------------------ *)
(* build_cluster *)
Definition push_neighbours (g : ising) (cs : consts) (cutoff : nat) (v : nat) (flip : option nat)
           (m : wbm) : wbm :=
  fold_left
    (fun m b =>
       let weight := bond_mag g b in
       match other_var g v b with
       | None => m
       | Some ov =>
           let olen := nth ov (c_lengths cs) 0 in
           let ostart := nth ov (c_starts cs) 0 in
           if Nat.eqb olen 0 then push_adjacent m ov None (Some weight)
           else
             match flip with
             | Some f =>
                 let vstart := nth v (c_starts cs) 0 in
                 let vlen := nth v (c_lengths cs) 0 in
                 let relflip := f - vstart in
                 let flip_inc := (relflip + 1) mod vlen + vstart in
                 let pstart := nth f (c_ps cs) 0 in
                 let pend := nth flip_inc (c_ps cs) 0 in
                 fold_left (fun m i => push_adjacent m ov (Some (i + ostart)) (Some weight))
                           (find_overlapping_starts pstart pend cutoff
                              (firstn olen (skipn ostart (c_ps cs))))
                           m
             | None =>
                 fold_left (fun m pi => push_adjacent m ov (Some pi) (Some weight))
                           (seq ostart olen) m
             end
       end)
    (bonds_for_var g v) m.

Fixpoint build_cluster (size : nat) (g : ising) (cs : consts) (cutoff : nat) (m : wbm)
         (cv : list nat) (cf : list (option nat))
  : prog (option (list nat * list (option nat) * wbm)) :=
  match size with
  | O => Ret (Some (cv, cf, m))
  | S k =>
      if wbm_empty m then Ret (Some (cv, cf, m))
      else
        bind (pop_index m) (fun r =>
          match r with
          | None => Ret None
          | Some (v, flip, m1) =>
              let m2 :=
                match flip with
                | Some f =>
                    let vstart := nth v (c_starts cs) 0 in
                    let vlen := nth v (c_lengths cs) 0 in
                    let relflip := f - vstart in
                    let flip_dec := (relflip + vlen - 1) mod vlen + vstart in
                    let flip_inc := (relflip + 1) mod vlen + vstart in
                    push_adjacent (push_adjacent m1 v (Some flip_dec) None) v (Some flip_inc) None
                | None => m1
                end in
              let m3 := push_neighbours g cs cutoff v flip m2 in
              build_cluster k g cs cutoff m3 (cv ++ [v]) (cf ++ [flip])
          end)
  end.

(* ------------------------------------------------------------------ *)
(* sub-variable bookkeeping *)
Definition v2s (subvars : list nat) (v : nat) : option nat := index_of v subvars 0.

Definition sget (l : list bool) (i : nat) : bool := nth i l false.

(* write the outputs of an operator into the sub-state, aligned by relative variable *)
Fixpoint write_sub (subvars : list nat) (sub : list bool) (vars : list nat) (vals : list bool) : list bool :=
  match vars, vals with
  | v :: vs, b :: bs =>
      write_sub subvars (match v2s subvars v with Some s => set_nth sub s b | None => sub end) vs bs
  | _, _ => sub
  end.

(* the variant used in mutate_graph's "not in cluster, off-diagonal" branch:
   filter_map(var_to_subvar).zip(outputs) pairs the FILTERED sub-variables with outputs from index 0 *)
Definition write_sub_filtered (subvars : list nat) (sub : list bool) (vars : list nat) (vals : list bool) : list bool :=
  let svs := flat_map (fun v => match v2s subvars v with Some s => [s] | None => [] end) vars in
  fold_left (fun sub '(s, b) => set_nth sub s b) (combine svs vals) sub.

Definition touches (subvars : list nat) (o : op) : bool := existsb (fun v => mem v subvars) (o_vars o).

(* operators having a variable among the sub-variables, with their positions, ascending *)
Fixpoint nearby_from (subvars : list nat) (sl : slots) (i : nat) : list (nat * op) :=
  match sl with
  | [] => []
  | None :: r => nearby_from subvars r (S i)
  | Some o :: r =>
      if touches subvars o then (i, o) :: nearby_from subvars r (S i) else nearby_from subvars r (S i)
  end.

(* ws_for_flip *)
Definition ws_for_flip (g : ising) (subvars : list nat) (b : nat) (to_flip : nat) (sub : list bool)
  : option (Q * Q) :=
  let '(va, vb) := edge_vars g b in
  match v2s subvars va, v2s subvars vb with
  | Some sa, Some sb =>
      let ba := sget sub sa in
      let bb := sget sub sb in
      let w_before := dh g b ba bb in
      let '(ba', bb') := if Nat.eqb to_flip sa then (negb ba, bb) else (ba, negb bb) in
      Some (w_before, dh g b ba' bb')
  | _, _ => None
  end.

(* calculate_mult: None = the f64 computation divides by zero *)
Definition calculate_mult (bb ba : bc nat) (n : nat) : option (Q * bool) :=
  let tb := bc_total bb in
  let ta := bc_total ba in
  if Nat.eqb n 0 || Qeq_bool tb ta then Some (1%Q, true)
  else if Qeq_bool tb 0 then None
  else Some (qpow (ta / tb) n, false).

Definition eps : Q := 1 # 4503599627370496.   (* f64::EPSILON = 2^-52 *)

(* ------------------------------------------------------------------ *)
(* calculate_flip_prob *)
Record fps := mkFps {
  f_size : nat;
  f_nci : nat;
  f_mult : Q;
  f_nb : nat;
  f_bb : bc nat;
  f_ba : bc nat;
  f_cs : list bool;
  f_sub : list bool;
  f_stop : bool;
  f_err : bool;
  f_exact : bool
}.

Definition upd_bonds_fp (g : ising) (subvars : list nat) (cs : list bool) (sub : list bool)
           (o : op) (bbba : bc nat * bc nat * bool) : bc nat * bc nat * bool :=
  fold_left
    (fun acc v =>
       match v2s subvars v with
       | None => acc
       | Some sv =>
           fold_left
             (fun '(bb, ba, err) b =>
                match other_var g v b with
                | None => (bb, ba, true)
                | Some ov =>
                    match v2s subvars ov with
                    | None => (bb, ba, err)
                    | Some osv =>
                        if Bool.eqb (sget cs sv) (sget cs osv) then
                          (if bc_contains id_idx bb b
                           then (bc_remove id_idx bb b, bc_remove id_idx ba b, err)
                           else (bb, ba, err))
                        else
                          let s := if sget cs sv then sv else osv in
                          match ws_for_flip g subvars b s sub with
                          | Some (wb, wa) => (bc_insert id_idx bb b wb, bc_insert id_idx ba b wa, err)
                          | None => (bb, ba, true)
                          end
                    end
                end)
             (bonds_for_var g v) acc
       end)
    (o_vars o) bbba.

Definition set_initial_bonds (g : ising) (subvars : list nat) (cs : list bool) (sub : list bool)
  : bc nat * bc nat * bool :=
  fold_left
    (fun acc v =>
       match v2s subvars v with
       | None => acc
       | Some sv =>
           if sget cs sv then
             fold_left
               (fun '(bb, ba, err) b =>
                  match other_var g v b with
                  | None => (bb, ba, true)
                  | Some ov =>
                      match v2s subvars ov with
                      | None => (bb, ba, true)      (* .unwrap() *)
                      | Some osv =>
                          if sget cs osv then (bb, ba, err)
                          else match ws_for_flip g subvars b sv sub with
                               | Some (wb, wa) =>
                                   (bc_insert id_idx bb b wb, bc_insert id_idx ba b wa, err)
                               | None => (bb, ba, true)
                               end
                      end
                  end)
               (bonds_for_var g v) acc
           else acc
       end)
    subvars ([], [], false).

Definition fp_process (g : ising) (subvars : list nat) (flips : list nat) (p : nat) (o : op) (s : fps) : fps :=
  let is_bound := match nth_error flips (f_nci s) with Some pf => Nat.eqb p pf | None => false end in
  let will_flip := negb (is_diag o) in
  let will_change := will_flip || is_bound in
  let completely_in :=
    forallb (fun v => match v2s subvars v with Some sv => sget (f_cs s) sv | None => false end) (o_vars o) in
  if bc_contains id_idx (f_bb s) (o_bond o) then
    mkFps (f_size s) (f_nci s) (f_mult s) (S (f_nb s)) (f_bb s) (f_ba s) (f_cs s) (f_sub s)
          false (f_err s) (f_exact s)
  else
    (* cluster boundary: toggle the (single) variable *)
    let '(cs1, size1, nci1, err1) :=
      if is_bound then
        match o_vars o with
        | v :: _ =>
            match v2s subvars v with
            | Some sv =>
                let nb := negb (sget (f_cs s) sv) in
                (set_nth (f_cs s) sv nb, (if nb then S (f_size s) else f_size s - 1), S (f_nci s), f_err s)
            | None => (f_cs s, f_size s, f_nci s, true)
            end
        | [] => (f_cs s, f_size s, f_nci s, true)
        end
      else (f_cs s, f_size s, f_nci s, f_err s) in
    let sub1 := if will_flip then write_sub subvars (f_sub s) (o_vars o) (o_out o) else f_sub s in
    let mult1 := if completely_in then (f_mult s * ising_ratio g o)%Q else f_mult s in
    if completely_in && Qlt_bool mult1 eps then
      mkFps size1 nci1 mult1 (f_nb s) (f_bb s) (f_ba s) cs1 sub1 true err1 (f_exact s)
    else if will_change then
      match calculate_mult (f_bb s) (f_ba s) (f_nb s) with
      | None => mkFps size1 nci1 mult1 0 (f_bb s) (f_ba s) cs1 sub1 true true (f_exact s)
      | Some (cm, ex) =>
          let mult2 := (mult1 * cm)%Q in
          if Qlt_bool mult2 eps then
            mkFps size1 nci1 mult2 0 (f_bb s) (f_ba s) cs1 sub1 true err1 (f_exact s && ex)
          else
            let '(bb2, ba2, err2) := upd_bonds_fp g subvars cs1 sub1 o (f_bb s, f_ba s, err1) in
            mkFps size1 nci1 mult2 0 bb2 ba2 cs1 sub1 false err2 (f_exact s && ex)
      end
    else
      mkFps size1 nci1 mult1 (f_nb s) (f_bb s) (f_ba s) cs1 sub1 false err1 (f_exact s).

Definition fp_step (g : ising) (subvars : list nat) (flips : list nat) (s : fps) (po : nat * op) : fps :=
  let '(p, o) := po in
  if f_stop s then s
  else if Nat.eqb (f_size s) 0 then
    match nth_error flips (f_nci s) with
    | None => mkFps (f_size s) (f_nci s) (f_mult s) (f_nb s) (f_bb s) (f_ba s) (f_cs s) (f_sub s)
                    true (f_err s) (f_exact s)
    | Some pf =>
        if Nat.ltb p pf then
          (* skipped ahead: only the propagated sub-state is kept up to date *)
          mkFps (f_size s) (f_nci s) (f_mult s) (f_nb s) (f_bb s) (f_ba s) (f_cs s)
                (write_sub subvars (f_sub s) (o_vars o) (o_out o)) false (f_err s) (f_exact s)
        else if Nat.eqb p pf then fp_process g subvars flips p o s
        else mkFps (f_size s) (f_nci s) (f_mult s) (f_nb s) (f_bb s) (f_ba s) (f_cs s) (f_sub s)
                   true true (f_exact s)
    end
  else fp_process g subvars flips p o s.

(* returns (mult, exact, substate', cluster_state'); None = the implementation would panic / overflow *)
Definition calculate_flip_prob (g : ising) (sl : slots) (subvars : list nat) (sub : list bool)
           (cs : list bool) (flips : list nat) : option (Q * bool * list bool * list bool) :=
  let size := count_true cs in
  let '(bb0, ba0, err0) := if Nat.eqb size 0 then ([], [], false) else set_initial_bonds g subvars cs sub in
  let s0 := mkFps size 0 1%Q 0 bb0 ba0 cs sub false err0 true in
  let s := fold_left (fp_step g subvars flips) (nearby_from subvars sl 0) s0 in
  if f_err s then None
  else match calculate_mult (f_bb s) (f_ba s) (f_nb s) with
       | None => None
       | Some (cm, ex) => Some ((f_mult s * cm)%Q, f_exact s && ex, f_sub s, f_cs s)
       end.

(* ------------------------------------------------------------------ *)
(* mutate_graph *)

(* first pass over the toggle positions: where the region opens and closes *)
Fixpoint jumps (subvars : list nat) (sl : slots) (flips : list nat) (cs : list bool) (count : nat)
         (jt cu : list nat) : list nat * list nat * list bool * nat :=
  match flips with
  | [] => (jt, cu, cs, count)
  | p :: r =>
      let jt1 := if Nat.eqb count 0 then jt ++ [p] else jt in
      let '(cs1, count1) :=
        match nth p sl None with
        | Some o =>
            fold_left (fun '(cs, c) v =>
                         match v2s subvars v with
                         | Some sv =>
                             let nb := negb (sget cs sv) in
                             (set_nth cs sv nb, if nb then S c else c - 1)
                         | None => (cs, c)
                         end) (o_vars o) (cs, count)
        | None => (cs, count)
        end in
      let cu1 := if Nat.eqb count1 0 then cu ++ [p] else cu in
      jumps subvars sl r cs1 count1 jt1 cu1
  end.

Definition initial_bonds_mut (g : ising) (subvars : list nat) (cs : list bool) (sub : list bool)
  : bc nat * bool :=
  fold_left
    (fun acc v =>
       match v2s subvars v with
       | None => acc
       | Some sv =>
           if sget cs sv then
             fold_left
               (fun '(bonds, err) b =>
                  match other_var g v b with
                  | None => (bonds, true)
                  | Some ov =>
                      match v2s subvars ov with
                      | None => (bonds, true)
                      | Some osv =>
                          if sget cs osv then (bonds, err)
                          else
                            let '(va, vb) := edge_vars g b in
                            match v2s subvars va, v2s subvars vb with
                            | Some sa, Some sb =>
                                (bc_insert id_idx bonds b (dh g b (sget sub sa) (sget sub sb)), err)
                            | _, _ => (bonds, true)
                            end
                      end
                  end)
               (bonds_for_var g v) acc
           else acc
       end)
    subvars ([], false).

Definition upd_bonds_mut (g : ising) (subvars : list nat) (cs : list bool) (sub : list bool)
           (o : op) (acc : bc nat * bool) : bc nat * bool :=
  fold_left
    (fun acc v =>
       match v2s subvars v with
       | None => acc
       | Some sv =>
           fold_left
             (fun '(bonds, err) b =>
                match other_var g v b with
                | None => (bonds, true)
                | Some ov =>
                    match v2s subvars ov with
                    | None => (bonds, err)
                    | Some osv =>
                        if Bool.eqb (sget cs sv) (sget cs osv) then
                          (bc_remove id_idx bonds b, err)
                        else
                          let '(va, vb) := edge_vars g b in
                          match v2s subvars va, v2s subvars vb with
                          | Some sa, Some sb =>
                              (bc_insert id_idx bonds b (dh g b (sget sub sa) (sget sub sb)), err)
                          | _, _ => (bonds, true)
                          end
                    end
                end)
             (bonds_for_var g v) acc
       end)
    (o_vars o) acc.

Record mst := mkMst {
  m_sl : slots;
  m_nci : nat;
  m_bonds : bc nat;
  m_sub : list bool;
  m_cs : list bool;
  m_err : bool
}.

Definition sub_vals (subvars : list nat) (sub : list bool) (vars : list nat) : list bool :=
  map (fun v => match v2s subvars v with Some s => sget sub s | None => false end) vars.

(* the callback handed to mutate_subsection_ops *)
Definition mut_visit (g : ising) (subvars : list nat) (flips : list nat) (p : nat) (s : mst)
  : prog mst :=
  match nth p (m_sl s) None with
  | None => Ret (mkMst (m_sl s) (m_nci s) (m_bonds s) (m_sub s) (m_cs s) true)
  | Some o =>
      if bc_contains id_idx (m_bonds s) (o_bond o) then
        (* rotate the operator onto a boundary bond drawn by its present weight *)
        Choose (map snd (m_bonds s)) (fun i =>
          match nth_error (m_bonds s) i with
          | None => Ret (mkMst (m_sl s) (m_nci s) (m_bonds s) (m_sub s) (m_cs s) true)
          | Some (nb, _) =>
              let '(na, nbv) := edge_vars g nb in
              let vals := sub_vals subvars (m_sub s) [na; nbv] in
              let no := mkOp [na; nbv] nb vals vals (o_const o) in
              Ret (mkMst (set_nth (m_sl s) p (Some no)) (m_nci s) (m_bonds s) (m_sub s) (m_cs s) (m_err s))
          end)
      else
        let at_flip := match nth_error flips (m_nci s) with Some pf => Nat.eqb p pf | None => false end in
        let '(newop, nci1, sub1, cs1) :=
          if at_flip then
            let svs := map (fun v => match v2s subvars v with Some sv => sv | None => 0 end) (o_vars o) in
            let cvals := map (sget (m_cs s)) svs in
            let nins := map (fun '(b, c) => xorb b c) (combine (o_in o) cvals) in
            let nouts := map (fun '(b, c) => xorb b (negb c)) (combine (o_out o) cvals) in
            let no := mkOp (o_vars o) (o_bond o) nins nouts (o_const o) in
            let cs1 := fold_left (fun cs sv => set_nth cs sv (negb (sget cs sv))) svs (m_cs s) in
            let sub1 := fold_left (fun sub '(sv, b) => set_nth sub sv b) (combine svs nouts) (m_sub s) in
            (Some no, S (m_nci s), sub1, cs1)
          else
            let any_sub := touches subvars o in
            let any_in := existsb (fun v => match v2s subvars v with Some sv => sget (m_cs s) sv | None => false end)
                                  (o_vars o) in
            if negb any_sub || (negb any_in && is_diag o) then (None, m_nci s, m_sub s, m_cs s)
            else if any_in then
              let no := mkOp (o_vars o) (o_bond o) (map negb (o_in o)) (map negb (o_out o)) (o_const o) in
              let sub1 := if is_diag no then m_sub s else write_sub subvars (m_sub s) (o_vars no) (o_out no) in
              (Some no, m_nci s, sub1, m_cs s)
            else
              (None, m_nci s, write_sub_filtered subvars (m_sub s) (o_vars o) (o_out o), m_cs s) in
        let '(bonds1, err1) := upd_bonds_mut g subvars cs1 sub1 o (m_bonds s, m_err s) in
        Ret (mkMst (match newop with Some no => set_nth (m_sl s) p (Some no) | None => m_sl s end)
                   nci1 bonds1 sub1 cs1 err1)
  end.

Fixpoint mut_visits (g : ising) (subvars : list nat) (flips : list nat) (ps : list nat) (s : mst)
  : prog mst :=
  match ps with
  | [] => Ret s
  | p :: r => bind (mut_visit g subvars flips p s) (fun s1 => mut_visits g subvars flips r s1)
  end.

(* get_propagated_substate_with_hint, through its specification: the state propagated up to p *)
Definition sub_at (st : state) (sl : slots) (subvars : list nat) (p : nat) : list bool :=
  let stp := propagate st (firstn p sl) in
  map (fun v => nth v stp false) subvars.

Fixpoint mut_segments (g : ising) (st : state) (subvars : list nat) (flips : list nat)
         (segs : list (nat * nat)) (s : mst) : prog mst :=
  match segs with
  | [] => Ret s
  | (from, until) :: r =>
      let sub0 := xor_lists (sub_at st (m_sl s) subvars from) (m_cs s) in
      let ps := map fst (filter (fun '(p, _) => Nat.leb from p && Nat.leb p until)
                                (nearby_from subvars (m_sl s) 0)) in
      bind (mut_visits g subvars flips ps
                       (mkMst (m_sl s) (m_nci s) (m_bonds s) sub0 (m_cs s) (m_err s)))
           (fun s1 => mut_segments g st subvars flips r s1)
  end.

Definition mutate_graph (g : ising) (st : state) (sl : slots) (subvars : list nat)
           (sub : list bool) (cs : list bool) (flips : list nat) : prog (option slots) :=
  let count := count_true cs in
  let has_start := negb (Nat.eqb count 0) in
  let sub1 := if has_start then xor_lists sub cs else sub in
  let '(jt, cu, cs_end, count_end) := jumps subvars sl flips cs count (if has_start then [0] else []) [] in
  let cu1 := if Nat.eqb count_end 0 then cu else cu ++ [length sl] in
  if negb (Nat.eqb (length jt) (length cu1)) then Ret None
  else
    let '(bonds0, err0) := initial_bonds_mut g subvars cs_end sub1 in
    bind (mut_segments g st subvars flips (combine jt cu1) (mkMst sl 0 bonds0 sub1 cs_end err0))
         (fun s => if m_err s then Ret None else Ret (Some (m_sl s))).

(* ------------------------------------------------------------------ *)
(* one RVB update of rvb_update_with_ising_weight *)
Definition cluster_layout (cs : consts) (subvars : list nat) (cv : list nat) (cf : list (option nat))
  : list bool * list nat :=
  fold_left
    (fun '(css, tog) '(v, fi) =>
       match v2s subvars v with
       | None => (css, tog)
       | Some sv =>
           match fi with
           | Some f =>
               let vstart := nth v (c_starts cs) 0 in
               let fi_rel := f - vstart in
               if Nat.leb (nth v (c_lengths cs) 0) (fi_rel + 1) then
                 (set_nth css sv true, tog ++ [nth f (c_ps cs) 0; nth vstart (c_ps cs) 0])
               else (css, tog ++ [nth f (c_ps cs) 0; nth (f + 1) (c_ps cs) 0])
           | None => (set_nth css sv true, tog)
           end
       end)
    (combine cv cf) (repeat false (length subvars), []).

Definition rvb_one (g : ising) (cs : consts) (st : state) (sl : slots)
  : prog (option (state * slots * bool)) :=
  let nconst := length (c_ps cs) in
  Unif (N.of_nat (nconst + length (c_zero cs))) (fun choiceN =>
    let choice := N.to_nat choiceN in
    let '(v, flip) :=
      if Nat.ltb choice nconst then (last_le (c_starts cs) choice 0 0, Some choice)
      else (nth (choice - nconst) (c_zero cs) 0, None) in
    TrailOnes (fun bits =>
      let size := S (N.to_nat bits) in
      bind (build_cluster size g cs (length sl) (push_adjacent wbm_new v flip None) [] []) (fun r =>
        match r with
        | None => Ret None
        | Some (cv, cf, m) =>
            let bvars := map (fun '(vp, _) => fst vp) (w_flips m ++ w_noflips m) in
            let subvars := filter (fun x => mem x (cv ++ bvars)) (seq 0 (length st)) in
            let '(css, tog) := cluster_layout cs subvars cv cf in
            let flips := remove_doubles (sort_nat tog) in
            let sub := map (fun x => nth x st false) subvars in
            match calculate_flip_prob g sl subvars sub css flips with
            | None => Ret None
            | Some (p, exact, sub', css') =>
                BernX exact p (fun go =>
                  if go then
                    bind (mutate_graph g st sl subvars sub' css' flips) (fun r2 =>
                      match r2 with
                      | None => Ret None
                      | Some sl' =>
                          let st' :=
                            if Nat.eqb (count_true css') 0 then st
                            else fold_left (fun st '(x, c) => set_nth st x (xorb (nth x st false) c))
                                           (combine subvars css') st in
                          Ret (Some (st', sl', true))
                      end)
                  else Ret (Some (st, sl, false)))
            end
        end))).

Fixpoint rvb_loop (updates : nat) (g : ising) (cs : consts) (st : state) (sl : slots) (succ : nat)
  : prog (option (state * slots * nat)) :=
  match updates with
  | O => Ret (Some (st, sl, succ))
  | S k =>
      bind (rvb_one g cs st sl) (fun r =>
        match r with
        | None => Ret None
        | Some (st1, sl1, ok) => rvb_loop k g cs st1 sl1 (if ok then S succ else succ)
        end)
  end.

(* RvbUpdater::rvb_update_with_ising_weight as called by QmcIsingGraph (both the field and the
   field-free closure: [ising_ratio] is constant 1 without a field) *)
Definition rvb_update (g : ising) (updates : nat) (st : state) (sl : slots)
  : prog (option (state * slots * nat)) :=
  rvb_loop updates g (find_constants (length st) sl) st sl 0.

(* QmcIsingGraph::single_rvb_sweep *)
Definition single_rvb_sweep (g : ising) (updates : option nat) (st : state) (sl : slots)
  : prog (option (state * slots * nat)) :=
  rvb_update g (match updates with Some k => k | None => (length st + 1) / 2 end) st sl.
