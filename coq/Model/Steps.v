(* Whole time steps of the two samplers (qmc_ising.rs, qmc_runner.rs) without RVB.
   Model file: definitions only. *)
From Coq Require Import List QArith ZArith NArith Bool Arith.
From QmcV Require Import Model.Prog Model.Sse Model.Nav Model.Ham Model.Diagonal Model.Cluster Model.Loop.
Import ListNotations.
Local Open Scope nat_scope.

Definition long_wf (g : ising) (o : op) : Q :=
  if Nat.leb (length (i_edges g) + i_nvars g) (o_bond o) then 0%Q else 1%Q.

Definition ising_diag (g : ising) (hb : bool) (beta : Q) (cutoff : nat) (st : state) (sl : slots) :=
  let H := ising_ham g in
  if hb then hb_update H (bond_weights H) beta cutoff st sl else met_update H beta cutoff st sl.

Definition ising_cluster (g : ising) (sl : slots) (st : state) :=
  cluster_update (1 # 2) (if has_long g then Some (long_wf g) else None) sl st.

(* QmcIsingGraph::timestep (run_rvb_steps = false): returns slots, state, new cutoff *)
Definition ising_timestep (g : ising) (hb : bool) (beta : Q) (cutoff : nat) (st : state) (sl : slots)
  : prog (option (slots * state * nat)) :=
  bind (ising_diag g hb beta cutoff st sl) (fun '(sl1, n1, st1) =>
  bind (ising_cluster g sl1 st1) (fun r =>
    match r with
    | None => Ret None
    | Some (sl2, st2, _) =>
        bind (refresh sl2 st2) (fun st3 =>
          Ret (Some (sl2, st3, next_cutoff cutoff (count_ops sl2))))
    end)).

(* QmcIsingGraph::single_diagonal_step *)
Definition ising_single_diagonal (g : ising) (hb : bool) (beta : Q) (cutoff : nat) (st : state) (sl : slots)
  : prog (option (slots * state * nat)) :=
  bind (ising_diag g hb beta cutoff st sl) (fun '(sl1, n1, st1) =>
    Ret (Some (sl1, st1, next_cutoff cutoff n1))).

(* QmcIsingGraph::single_cluster_step (includes the free-spin refresh) *)
Definition ising_single_cluster (g : ising) (cutoff : nat) (st : state) (sl : slots)
  : prog (option (slots * state * nat)) :=
  bind (ising_cluster g sl st) (fun r =>
    match r with
    | None => Ret None
    | Some (sl2, st2, _) => bind (refresh sl2 st2) (fun st3 => Ret (Some (sl2, st3, cutoff)))
    end).

(* Qmc::timestep *)
Definition qmc_diag (bonds : list interaction) (hb : bool) (beta : Q) (cutoff : nat) (st : state) (sl : slots) :=
  let H := qmc_ham bonds in
  if hb then hb_update H (bond_weights H) beta cutoff st sl else met_update H beta cutoff st sl.

Definition qmc_timestep (fuel : nat) (bonds : list interaction) (hb loops : bool) (beta : Q) (cutoff : nat)
           (st : state) (sl : slots) : prog (option (slots * state * nat)) :=
  let H := qmc_ham bonds in
  bind (qmc_diag bonds hb beta cutoff st sl) (fun '(sl1, n1, st1) =>
  let cutoff' := next_cutoff cutoff n1 in
  bind (if loops then loop_update fuel H sl1 st1 else Ret (Some (sl1, st1))) (fun r =>
    match r with
    | None => Ret None
    | Some (sl2, st2) =>
        bind (if should_cluster bonds then cluster_update (1 # 2) None sl2 st2
              else Ret (Some (sl2, st2, 0))) (fun r2 =>
          match r2 with
          | None => Ret None
          | Some (sl3, st3, _) => bind (refresh sl3 st3) (fun st4 => Ret (Some (sl3, st4, cutoff')))
          end)
    end)).
