(* Bounded scratch-buffer pools (util/allocator.rs, sse/fast_op_alloc.rs).  Definitions only. *)
From Coq Require Import List Arith Bool.
From QmcV Require Import Model.Sse.
Import ListNotations.

(* occupancy per pool (number of buffers currently available) *)
Definition pool := list nat.

Inductive ev := Get (t : nat) | Ret (t : nat).

(* Allocator::get_instance panics ("Out of instances.") on an empty pool: None *)
Fixpoint run (p : pool) (tr : list ev) : option pool :=
  match tr with
  | [] => Some p
  | Get t :: r =>
      match nth t p 0 with
      | O => None
      | S k => run (set_nth p t k) r
      end
  | Ret t :: r => run (set_nth p t (S (nth t p 0))) r
  end.

(* a call is fine from a full pool iff it never exhausts a pool and hands everything back *)
Definition pool_eqb (a b : pool) : bool := list_beq Nat.eqb a b.
Definition call_ok (caps : pool) (tr : list ev) : bool :=
  match run caps tr with Some p => pool_eqb p caps | None => false end.

(* largest number of buffers of pool t simultaneously borrowed during the trace *)
Fixpoint peak_from (t cur best : nat) (tr : list ev) : nat :=
  match tr with
  | [] => best
  | Get u :: r => if Nat.eqb u t then peak_from t (S cur) (Nat.max best (S cur)) r else peak_from t cur best r
  | Ret u :: r => if Nat.eqb u t then peak_from t (cur - 1) best r else peak_from t cur best r
  end.
Definition peak (t : nat) (tr : list ev) : nat := peak_from t 0 0 tr.
