(* Replica-exchange step (tempering_container.rs, tempering_traits.rs).
   Model file: definitions only. *)
From Coq Require Import List QArith ZArith NArith Bool Arith.
From QmcV Require Import Model.Prog Model.Sse Model.Ham Model.Diagonal.
Import ListNotations.
Local Open Scope nat_scope.

Definition qmin1q (q : Q) : Q := if Qle_bool 1 q then 1%Q else (if Qle_bool q 0 then 0%Q else q).

(* perform_swaps on consecutive pairs (a0,a1), (a2,a3), ...: one uniform per pair,
   accept iff p_swap > u *)
Fixpoint phase {A} (ps : A -> A -> Q) (swp : A -> A -> A * A) (l : list A) : prog (list A * nat) :=
  match l with
  | a :: b :: r =>
      let p := qmin1q (ps a b) in
      Choose [p; (1 - p)%Q] (fun k =>
        let '(a', b') := if Nat.eqb k 0 then swp a b else (a, b) in
        bind (phase ps swp r) (fun '(r', c) =>
          Ret (a' :: b' :: r', (if Nat.eqb k 0 then S c else c))))
  | _ => Ret (l, 0)
  end.

Fixpoint split_last {A} (l : list A) : option (list A * A) :=
  match l with
  | [] => None
  | [x] => Some ([], x)
  | x :: r => match split_last r with Some (i, y) => Some (x :: i, y) | None => None end
  end.

(* make_first_subgraphs: the whole ladder if even, all but the last otherwise *)
Definition phase_a {A} (ps : A -> A -> Q) (swp : A -> A -> A * A) (l : list A) : prog (list A * nat) :=
  if Nat.even (length l) then phase ps swp l
  else match split_last l with
       | Some (i, x) => bind (phase ps swp i) (fun '(i', c) => Ret (i' ++ [x], c))
       | None => Ret (l, 0)
       end.

(* make_second_subgraphs: drop the first; also drop the last if the ladder is even *)
Definition phase_b {A} (ps : A -> A -> Q) (swp : A -> A -> A * A) (l : list A) : prog (list A * nat) :=
  match l with
  | [] => Ret (l, 0)
  | h :: t =>
      if Nat.even (length t) then bind (phase ps swp t) (fun '(t', c) => Ret (h :: t', c))
      else match split_last t with
           | Some (i, x) => bind (phase ps swp i) (fun '(i', c) => Ret (h :: i' ++ [x], c))
           | None => Ret (l, 0)
           end
  end.

(* tempering_step (after cutoffs have been equalised): order bit, then both phases *)
Definition tempering_step {A} (ps : A -> A -> Q) (swp : A -> A -> A * A) (l : list A) : prog (list A * nat) :=
  if Nat.leb (length l) 1 then Ret (l, 0)
  else Bern (1 # 2) (fun first =>
         if first then
           bind (phase_a ps swp l) (fun '(l1, c1) =>
           bind (phase_b ps swp l1) (fun '(l2, c2) => Ret (l2, c1 + c2)))
         else
           bind (phase_b ps swp l) (fun '(l1, c1) =>
           bind (phase_a ps swp l1) (fun '(l2, c2) => Ret (l2, c1 + c2)))).

(* ---------------- swap probability for Ising replicas ---------------- *)
Definition qpowz (q : Q) (e : Z) : Q := Qpower q e.

Record replica := mkReplica {
  rp_ham : ising;
  rp_beta : Q;
  rp_cutoff : nat;
  rp_state : state;
  rp_slots : slots
}.

(* QmcIsingGraph::relative_weight: W_h(config of self) / W_self(config of self), from bond counts *)
Definition count_range (sl : slots) (lo n : nat) : nat :=
  fold_right (fun b acc => count_bond (lo + b) sl + acc) 0 (seq 0 n).

Definition relative_weight (self h : replica) : Q :=
  let gs := rp_ham self in
  let gh := rp_ham h in
  let sl := rp_slots self in
  let ne := length (i_edges gs) in
  let nv := i_nvars gs in
  let bond_ratio :=
    fold_left (fun acc '(b, ((_, _, ja), (_, _, jb))) =>
                 (acc * qpowz (ja / jb) (Z.of_nat (count_bond b sl)))%Q)
              (combine (seq 0 ne) (combine (i_edges gh) (i_edges gs))) 1%Q in
  let t_ratio := qpowz (i_gamma gh / i_gamma gs) (Z.of_nat (count_range sl ne nv)) in
  if has_long gs then
    (bond_ratio * t_ratio * qpowz (i_h gh / i_h gs) (Z.of_nat (count_range sl (ne + nv) nv)))%Q
  else (bond_ratio * t_ratio)%Q.

(* HamInfo equality (after the fix): edges, transverse and longitudinal field *)
Definition edges_eqb (a b : list (nat * nat * Q)) : bool :=
  list_beq (fun '(x1, y1, j1) '(x2, y2, j2) => Nat.eqb x1 x2 && Nat.eqb y1 y2 && Qeq_bool j1 j2) a b.

Definition ham_eq (a b : replica) : bool :=
  edges_eqb (i_edges (rp_ham a)) (i_edges (rp_ham b))
  && Qeq_bool (i_gamma (rp_ham a)) (i_gamma (rp_ham b))
  && Qeq_bool (i_h (rp_ham a)) (i_h (rp_ham b)).

(* swap_on_chunks *)
Definition p_swap (a b : replica) : Q :=
  let rel := if ham_eq a b then 1%Q else (relative_weight a b * relative_weight b a)%Q in
  let na := Z.of_nat (count_ops (rp_slots a)) in
  let nb := Z.of_nat (count_ops (rp_slots b)) in
  (qpowz (rp_beta a / rp_beta b) (nb - na) * rel)%Q.

(* swap_graphs: operator string and state only *)
Definition swap_replicas (a b : replica) : replica * replica :=
  (mkReplica (rp_ham a) (rp_beta a) (rp_cutoff a) (rp_state b) (rp_slots b),
   mkReplica (rp_ham b) (rp_beta b) (rp_cutoff b) (rp_state a) (rp_slots a)).

(* cutoffs are raised to the ladder maximum first *)
Definition equalise (l : list replica) : list replica :=
  let m := fold_right (fun r acc => Nat.max (rp_cutoff r) acc) 0 l in
  map (fun r => mkReplica (rp_ham r) (rp_beta r) m (rp_state r) (pad m (rp_slots r))) l.
