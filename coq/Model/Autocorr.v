(* The documented normalised circular autocorrelation (sse/autocorrelations.rs), as a rational
   specification.  Definitions only.
   fft_autocorrelation computes, per observable i: v = x_i - mean, v / ||v||, forward FFT, |.|^2,
   unnormalised inverse FFT, and finally divides the sum over observables by n * T.
   Since (v_s/||v||)(v_u/||v||) = v_s v_u / sum v^2, the result is rational in the samples. *)
From Coq Require Import List QArith ZArith Bool Arith.
Import ListNotations.
Open Scope Q_scope.

Definition qsuml (l : list Q) : Q := fold_right Qplus 0 l.
(* the same sum, kept in lowest terms (so that evaluating long series stays fast) *)
Definition qsumr (l : list Q) : Q := fold_right (fun x acc => Qred (x + acc)) 0 l.

Definition column (samples : list (list Q)) (i : nat) : list Q := map (fun row => nth i row 0) samples.

Definition mean (xs : list Q) : Q := Qred (qsumr xs / (Z.of_nat (length xs) # 1)).

Definition centred (xs : list Q) : list Q := let m := mean xs in map (fun x => Qred (x - m)) xs.

(* circular autocovariance at lag t:  sum_s v_s * v_{(s+t) mod T} *)
Definition circ_cov (v : list Q) (t : nat) : Q :=
  let T := length v in
  qsumr (map (fun s => nth s v 0 * nth ((s + t) mod T) v 0) (seq 0 T)).

Definition ac_column (xs : list Q) (t : nat) : Q :=
  let v := centred xs in Qred (circ_cov v t / circ_cov v 0).

(* one entry per recorded sample: lag-t entry = average over observables *)
Definition ac_spec (samples : list (list Q)) : list Q :=
  let T := length samples in
  let n := length (hd [] samples) in
  map (fun t => qsuml (map (fun i => ac_column (column samples i) t) (seq 0 n)) / (Z.of_nat n # 1)) (seq 0 T).
