(* Measurement helpers (qmc_stepper.rs) and tempering drivers (tempering_container.rs)
   over an abstract step function.  Model file: definitions only. *)
From Coq Require Import List QArith ZArith NArith Bool Arith.
Import ListNotations.
Local Open Scope nat_scope.

(* ---------------- timesteps_measure_with_self ---------------- *)
(* S: sampler state, A: fold accumulator.  [t] is the 0-based index of the step about to be
   taken; samples are taken when (t + 1) mod f = 0. *)
Fixpoint measure_loop {St A} (step : St -> St) (nof : St -> nat) (fold : A -> St -> A) (f : nat)
         (rem t : nat) (s : St) (acc : A) (cnt tot : nat) : St * A * nat * nat :=
  match rem with
  | O => (s, acc, cnt, tot)
  | S r =>
      let s' := step s in
      if Nat.eqb ((t + 1) mod f) 0
      then measure_loop step nof fold f r (S t) s' (fold acc s') (S cnt) (tot + nof s')
      else measure_loop step nof fold f r (S t) s' acc cnt tot
  end.

Definition measure {St A} (step : St -> St) (nof : St -> nat) (fold : A -> St -> A) (f T : nat) (s : St) (acc : A) :=
  measure_loop step nof fold f T 0 s acc 0 0.

(* reported energy: offset - (total_n / steps_measured) / beta *)
Definition energy_of (offset beta : Q) (cnt tot : nat) : Q :=
  (offset - ((Z.of_nat tot # 1) / (Z.of_nat cnt # 1)) / beta)%Q.

Fixpoint iter {St} (step : St -> St) (k : nat) (s : St) : St :=
  match k with O => s | S j => step (iter step j s) end.

(* the step indices at which a sample is taken *)
Definition sample_times (f T : nat) : list nat := filter (fun k => Nat.eqb (k mod f) 0) (seq 1 T).

(* ---------------- tempering driver ---------------- *)
Inductive event := EStep | ESwap | ESample.

(* the chunked while loop of timesteps_sample; fuel bounds the number of chunks *)
Fixpoint driver (fuel : nat) (sf ff : nat) (rem tsamp tswap : nat) : option (list event) :=
  match fuel with
  | O => None
  | S fu =>
      if Nat.eqb rem 0 then Some []
      else
        let t := Nat.min (Nat.min tsamp tswap) rem in
        let tsamp' := tsamp - t in
        let tswap' := tswap - t in
        let rem' := rem - t in
        let ev := repeat EStep t
                  ++ (if Nat.eqb tswap' 0 then [ESwap] else [])
                  ++ (if Nat.eqb tsamp' 0 then [ESample] else []) in
        match driver fu sf ff rem' (if Nat.eqb tsamp' 0 then ff else tsamp') (if Nat.eqb tswap' 0 then sf else tswap') with
        | Some r => Some (ev ++ r)
        | None => None
        end
  end.

(* specification: one step at a time; after step k a swap iff s | k, then a sample iff f | k *)
Fixpoint spec_from (sf ff : nat) (k rem : nat) : list event :=
  match rem with
  | O => []
  | S r =>
      EStep :: (if Nat.eqb (k mod sf) 0 then [ESwap] else [])
            ++ (if Nat.eqb (k mod ff) 0 then [ESample] else [])
            ++ spec_from sf ff (S k) r
  end.
Definition spec_trace (sf ff T : nat) : list event := spec_from sf ff 1 T.

(* energy accounting of the driver: chunks of lengths ts over per-step energies es:
   sum over chunks of (chunk average * chunk length), divided by T *)
Fixpoint qsum (l : list Q) : Q := match l with [] => 0%Q | x :: r => (x + qsum r)%Q end.

Fixpoint chunk_energy (ts : list nat) (es : list Q) : Q :=
  match ts with
  | [] => 0%Q
  | t :: r =>
      let c := firstn t es in
      (qsum c / (Z.of_nat t # 1) * (Z.of_nat t # 1) + chunk_energy r (skipn t es))%Q
  end.

Definition driver_energy (ts : list nat) (es : list Q) (T : nat) : Q :=
  (chunk_energy ts es / (Z.of_nat T # 1))%Q.

(* chunk lengths chosen by the driver *)
Fixpoint chunks (fuel : nat) (sf ff : nat) (rem tsamp tswap : nat) : list nat :=
  match fuel with
  | O => []
  | S fu =>
      if Nat.eqb rem 0 then []
      else
        let t := Nat.min (Nat.min tsamp tswap) rem in
        let tsamp' := tsamp - t in
        let tswap' := tswap - t in
        t :: chunks fu sf ff (rem - t) (if Nat.eqb tsamp' 0 then ff else tsamp') (if Nat.eqb tswap' 0 then sf else tswap')
  end.
