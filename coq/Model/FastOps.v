(* A Gallina transcription of the linked operator container of /repo/src/sse/fast_ops.rs:
   FastOpsTemplate / FastOpNodeTemplate / FastOpMutateArgs and DiagonalSubsection::mutate_p
   (SubvarAccess::All cursor: subvar = var), together with the scan-derived structure
   (`build`) and cursor (`scan_cursor`) that it is compared against.
   Model file: definitions only.

   Conventions of the transcription
   * A `PRel {p, relv}` is the pair (p, relv).
   * `args.last_vars` / `args.last_rels` are two vectors that the Rust code only ever writes
     together; they are modelled as one vector `a_last` of `option (p, relv)`.
     `args.last_vars[v]` is `option_map fst (a_last[v])`.
   * Rust panics (failed `unwrap`, out-of-range index, `unreachable!()`) have no counterpart in a
     total function: an update through a missing node / out-of-range index is the identity, a read
     yields `None`, `unreachable!()` yields `None`, `x -= 1` is truncated subtraction.
     `debug_assert!`s are not modelled.
   * `fill_args_at_p` and `clear_and_install_ops` are not transcribed; what they are meant to
     compute is given directly by scanning (`scan_cursor`, `build`).  `scan_cursor` takes the number
     of variables because the Rust cursor vectors have that fixed length. *)
From Coq Require Import List Bool Arith.
From QmcV Require Import Model.Sse Model.Nav.
Import ListNotations.

Definition prel := (nat * nat)%type.

Record node := mkNode {
  n_op : op;
  n_prev : option nat;               (* previous_p *)
  n_next : option nat;               (* next_p *)
  n_prev_v : list (option prel);     (* previous_for_vars *)
  n_next_v : list (option prel)      (* next_for_vars *)
}.

Record fops := mkFops {
  f_ops : list (option node);                    (* ops *)
  f_n : nat;                                     (* n *)
  f_ends : option (nat * nat);                   (* p_ends *)
  f_var_ends : list (option (prel * prel));      (* var_ends *)
  f_counters : option (list nat)                 (* bond_counters *)
}.

Record margs := mkArgs {
  a_last_p : option nat;             (* last_p *)
  a_last : list (option prel)        (* last_vars zip last_rels, one entry per variable *)
}.

Definition contents (F : fops) : slots := map (option_map n_op) (f_ops F).

(* ------------------------------------------------------------------ *)
(* vector / record plumbing                                            *)

(* l[i] = f (l[i]); identity when i is out of range *)
Fixpoint upd_nth {A} (l : list A) (i : nat) (f : A -> A) : list A :=
  match l, i with
  | [], _ => []
  | a :: t, O => f a :: t
  | a :: t, S j => a :: upd_nth t j f
  end.

(* .iter().enumerate() *)
Definition enumerate {A} (l : list A) : list (nat * A) := combine (seq 0 (length l)) l.

Definition set_ops (F : fops) (x : list (option node)) : fops :=
  mkFops x (f_n F) (f_ends F) (f_var_ends F) (f_counters F).
Definition set_n (F : fops) (x : nat) : fops :=
  mkFops (f_ops F) x (f_ends F) (f_var_ends F) (f_counters F).
Definition set_ends (F : fops) (x : option (nat * nat)) : fops :=
  mkFops (f_ops F) (f_n F) x (f_var_ends F) (f_counters F).
Definition set_var_ends (F : fops) (x : list (option (prel * prel))) : fops :=
  mkFops (f_ops F) (f_n F) (f_ends F) x (f_counters F).
Definition set_counters (F : fops) (x : option (list nat)) : fops :=
  mkFops (f_ops F) (f_n F) (f_ends F) (f_var_ends F) x.

Definition with_prev (nd : node) (x : option nat) : node :=
  mkNode (n_op nd) x (n_next nd) (n_prev_v nd) (n_next_v nd).
Definition with_next (nd : node) (x : option nat) : node :=
  mkNode (n_op nd) (n_prev nd) x (n_prev_v nd) (n_next_v nd).
Definition with_prev_v (nd : node) (x : list (option prel)) : node :=
  mkNode (n_op nd) (n_prev nd) (n_next nd) x (n_next_v nd).
Definition with_next_v (nd : node) (x : list (option prel)) : node :=
  mkNode (n_op nd) (n_prev nd) (n_next nd) (n_prev_v nd) x.

(* self.ops[q].as_ref() *)
Definition node_at (ops : list (option node)) (q : nat) : option node :=
  match nth_error ops q with Some (Some nd) => Some nd | _ => None end.

(* let node = self.ops[q].as_mut().unwrap(); node.<field> = ... *)
Definition upd_node (ops : list (option node)) (q : nat) (g : node -> node) : list (option node) :=
  upd_nth ops q (option_map g).

Definition set_prev_p ops q (x : option nat) := upd_node ops q (fun nd => with_prev nd x).
Definition set_next_p ops q (x : option nat) := upd_node ops q (fun nd => with_next nd x).
Definition set_prev_v ops q r (x : option prel) :=
  upd_node ops q (fun nd => with_prev_v nd (set_nth (n_prev_v nd) r x)).
Definition set_next_v ops q r (x : option prel) :=
  upd_node ops q (fun nd => with_next_v nd (set_nth (n_next_v nd) r x)).

(* the four "ends" adjustments, shared by p_ends (A = usize) and var_ends[v] (A = PRel) *)
(* removing the head:  if let Some((head, tail)) = ends { next.map(|new_head| (new_head, tail)) } else { unreachable!() } *)
Definition ends_drop_head {A} (e : option (A * A)) (nxt : option A) : option (A * A) :=
  match e with Some (_, tail) => option_map (fun nh => (nh, tail)) nxt | None => None end.
(* removing the tail:  if let Some((head, tail)) = ends { prev.map(|new_tail| (head, new_tail)) } else { None } *)
Definition ends_drop_tail {A} (e : option (A * A)) (prv : option A) : option (A * A) :=
  match e with Some (head, _) => option_map (fun nt => (head, nt)) prv | None => None end.
(* new head:  if let Some((head, tail)) = ends { Some((x, tail)) } else { Some((x, x)) } *)
Definition ends_new_head {A} (e : option (A * A)) (x : A) : option (A * A) :=
  match e with Some (_, tail) => Some (x, tail) | None => Some (x, x) end.
(* new tail:  if let Some((head, tail)) = ends { Some((head, x)) } else { Some((x, x)) } *)
Definition ends_new_tail {A} (e : option (A * A)) (x : A) : option (A * A) :=
  match e with Some (head, _) => Some (head, x) | None => Some (x, x) end.

(* if let Some(bond_counters) = self.bond_counters.as_mut() { bond_counters[bond] -= 1 / += 1 } *)
Definition dec_counter (c : option (list nat)) (b : nat) : option (list nat) :=
  option_map (fun l => upd_nth l b pred) c.
Definition inc_counter (c : option (list nat)) (b : nat) : option (list nat) :=
  option_map (fun l => upd_nth l b S) c.

(* ------------------------------------------------------------------ *)
(* mutate_p, branch (c1): uninstall the old node                       *)

(* body of  vars.iter().cloned().enumerate().for_each(|(relv, v)| {...})  in the uninstall part *)
Definition unlink_var (nd : node) (a : margs) (F : fops) (rv : nat * nat) : fops :=
  let '(relv, v) := rv in
  let prev := nth v (a_last a) None in                 (* args.last_vars[v].zip(args.last_rels[v]) *)
  let nxt := nth relv (n_next_v nd) None in            (* node_ref.next_for_vars[relv] *)
  let F1 :=
    match prev with
    | Some (prev_p_for_v, prev_rel_indx) =>
        set_ops F (set_next_v (f_ops F) prev_p_for_v prev_rel_indx nxt)
    | None =>
        (* This was the first one, need to edit vars list. *)
        set_var_ends F (upd_nth (f_var_ends F) v (fun e => ends_drop_head e nxt))
    end in
  match nxt with
  | Some (next_p_for_v, next_rel_index) =>
      set_ops F1 (set_prev_v (f_ops F1) next_p_for_v next_rel_index prev)
  | None =>
      set_var_ends F1 (upd_nth (f_var_ends F1) v
                         (fun e => ends_drop_tail e (nth relv (n_prev_v nd) None)))
  end.

(* `F` is the structure after `self.ops[p].take()`, `nd` the node taken out *)
Definition uninstall (F : fops) (nd : node) (a : margs) : fops :=
  (* If there's a previous p, point it towards the next one *)
  let F1 :=
    match a_last_p a with
    | Some last_p => set_ops F (set_next_p (f_ops F) last_p (n_next nd))
    | None => set_ends F (ends_drop_head (f_ends F) (n_next nd))
    end in
  (* If there's a next p, point it towards the previous one:
     node_ref.next_p.and_then(|p| self.ops[p].as_mut()) *)
  let next_p_node :=
    match n_next nd with
    | Some np => match node_at (f_ops F1) np with Some _ => Some np | None => None end
    | None => None
    end in
  let F2 :=
    match next_p_node with
    | Some np => set_ops F1 (set_prev_p (f_ops F1) np (a_last_p a))
    | None => set_ends F1 (ends_drop_tail (f_ends F1) (n_prev nd))
    end in
  (* Now do the same for variables. *)
  let F3 := fold_left (unlink_var nd a) (enumerate (o_vars (n_op nd))) F2 in
  (* self.n -= 1; bond_counters[bond] -= 1 *)
  let F4 := set_n F3 (f_n F3 - 1) in
  set_counters F4 (dec_counter (f_counters F4) (o_bond (n_op nd))).

(* ------------------------------------------------------------------ *)
(* mutate_p, branch (c2): install the new op                           *)

(* the closure mapped over new_op.get_vars() producing (prev_p_and_rel, next_p_and_rel) *)
Definition link_targets (F : fops) (a : margs) (v : nat) : option prel * option prel :=
  let prev_p_and_rel := nth v (a_last a) None in
  let next_p_and_rel :=
    match option_map fst (nth v (a_last a) None) with        (* args.last_vars[v] *)
    | Some prev_p_for_v =>
        (* If there's a previous node for the var, check its next entry. *)
        match node_at (f_ops F) prev_p_for_v with
        | Some prev_node_for_v =>
            match index_of v (o_vars (n_op prev_node_for_v)) with      (* op.index_of_var(v).unwrap() *)
            | Some indx => nth indx (n_next_v prev_node_for_v) None
            | None => None
            end
        | None => None
        end
    | None =>
        match nth v (f_var_ends F) None with
        | Some (head, _) => Some head          (* this is the new head *)
        | None => None                         (* this is the new tail *)
        end
    end in
  (prev_p_and_rel, next_p_and_rel).

(* prevs.iter().zip(vars).enumerate().for_each(|(relv, (prev, v))| ...) *)
Definition link_prev (p : nat) (F : fops) (x : nat * (option prel * nat)) : fops :=
  let '(relv, (prev, v)) := x in
  match prev with
  | Some (prev_p, prev_rel) => set_ops F (set_next_v (f_ops F) prev_p prev_rel (Some (p, relv)))
  | None => set_var_ends F (upd_nth (f_var_ends F) v (fun e => ends_new_head e (p, relv)))
  end.

(* nexts.iter().zip(vars).enumerate().for_each(|(relv, (next, v))| ...) *)
Definition link_next (p : nat) (F : fops) (x : nat * (option prel * nat)) : fops :=
  let '(relv, (next, v)) := x in
  match next with
  | Some (next_p, next_rel) => set_ops F (set_prev_v (f_ops F) next_p next_rel (Some (p, relv)))
  | None => set_var_ends F (upd_nth (f_var_ends F) v (fun e => ends_new_tail e (p, relv)))
  end.

Definition install (F : fops) (p : nat) (new_op : op) (a : margs) : fops :=
  let vars := o_vars new_op in
  let pn := map (link_targets F a) vars in       (* .map(...).unzip() : evaluated before any adjustment *)
  let prevs := map fst pn in
  let nexts := map snd pn in
  (* Now adjust other nodes and ends *)
  let F1 := fold_left (link_prev p) (enumerate (combine prevs vars)) F in
  let F2 := fold_left (link_next p) (enumerate (combine nexts vars)) F1 in
  let previous_p := a_last_p a in
  let next_p :=
    match a_last_p a with
    | Some last_p => match node_at (f_ops F2) last_p with Some nd => n_next nd | None => None end
    | None => match f_ends F2 with Some (head, _) => Some head | None => None end
    end in
  let F3 :=
    match previous_p with
    | Some prev => set_ops F2 (set_next_p (f_ops F2) prev (Some p))
    | None => set_ends F2 (ends_new_head (f_ends F2) p)
    end in
  let F4 :=
    match next_p with
    | Some next => set_ops F3 (set_prev_p (f_ops F3) next (Some p))
    | None => set_ends F3 (ends_new_tail (f_ends F3) p)
    end in
  let F5 := set_counters F4 (inc_counter (f_counters F4) (o_bond new_op)) in
  let F6 := set_ops F5 (set_nth (f_ops F5) p (Some (mkNode new_op previous_p next_p prevs nexts))) in
  set_n F6 (f_n F6 + 1).

(* ------------------------------------------------------------------ *)
(* mutate_p, branch (b): quick install                                 *)
Definition quick_install (F : fops) (p : nat) (new_op : op) (old : node) : fops :=
  let node_ref := mkNode new_op (n_prev old) (n_next old) (n_prev_v old) (n_next_v old) in
  let c1 := dec_counter (f_counters F) (o_bond (n_op old)) in
  let c2 := inc_counter c1 (o_bond new_op) in
  let F1 := set_counters F c2 in
  set_ops F1 (set_nth (f_ops F1) p (Some node_ref)).

(* ------------------------------------------------------------------ *)
(* mutate_p, part (d): advance the cursor                              *)
Definition advance (F : fops) (p : nat) (a : margs) : margs :=
  match node_at (f_ops F) p with
  | Some nd =>
      let last := fold_left (fun l (rv : nat * nat) => let '(relv, v) := rv in set_nth l v (Some (p, relv)))
                            (enumerate (o_vars (n_op nd))) (a_last a) in
      mkArgs (Some p) last
  | None => a
  end.

(* ------------------------------------------------------------------ *)
(* DiagonalSubsection::mutate_p.  `dec` is the callback's answer `new_op`:
   None = no change, Some None = remove, Some (Some o) = put o. *)
Definition mutate_p (F : fops) (p : nat) (dec : option (option op)) (a : margs) : fops * margs :=
  let F' :=
    match dec with
    | None => F
    | Some new_op =>
        let old_op_node := node_at (f_ops F) p in                       (* self.ops[p].take() *)
        let F0 := set_ops F (set_nth (f_ops F) p None) in
        let same_vars :=
          match new_op, old_op_node with
          | Some o, Some nd => nats_eqb (o_vars (n_op nd)) (o_vars o)
          | _, _ => false
          end in
        if same_vars then
          match new_op, old_op_node with
          | Some o, Some nd => quick_install F0 p o nd
          | _, _ => F0                                                 (* not reachable *)
          end
        else
          let F1 := match old_op_node with Some nd => uninstall F0 nd a | None => F0 end in
          match new_op with Some o => install F1 p o a | None => F1 end
    end in
  (F', advance F' p a).

(* mutate_subsection's fold over p = pstart .. pend-1, the callback's answers given as a list *)
Fixpoint sweep (F : fops) (a : margs) (p : nat) (decs : list (option (option op))) : fops * margs :=
  match decs with
  | [] => (F, a)
  | d :: ds => let '(F', a') := mutate_p F p d a in sweep F' a' (S p) ds
  end.

(* FastOpsTemplate::new_from_nvars_and_nbonds *)
Definition new_fops (nvars : nat) (nbonds : option nat) : fops :=
  mkFops [] 0 None (repeat None nvars) (option_map (repeat 0) nbonds).

(* mutate_subsection:  if pend > self.ops.len() { self.ops.resize(pend, None) } *)
Definition resize_ops (F : fops) (pend : nat) : fops :=
  if Nat.ltb (length (f_ops F)) pend
  then set_ops F (f_ops F ++ repeat None (pend - length (f_ops F)))
  else F.

(* ------------------------------------------------------------------ *)
(* what a scan of the slots derives                                    *)

Definition ends_of {A} (first last : option A) : option (A * A) :=
  match first, last with Some a, Some b => Some (a, b) | _, _ => None end.

Definition build_node (sl : slots) (p : nat) (o : op) : node :=
  mkNode o (prev_p sl p) (next_p sl p)
         (map (prev_for_var sl p) (o_vars o)) (map (next_for_var sl p) (o_vars o)).

Definition build (nvars : nat) (nbonds : option nat) (sl : slots) : fops :=
  mkFops (map (fun ps : nat * option op => option_map (build_node sl (fst ps)) (snd ps)) (enumerate sl))
         (count_ops sl)
         (ends_of (first_p sl) (last_p sl))
         (map (fun v => ends_of (first_for_var sl v) (last_for_var sl v)) (seq 0 nvars))
         (option_map (fun nb => map (fun b => count_bond b sl) (seq 0 nb)) nbonds).

(* the cursor a scan yields just before position p *)
Definition scan_cursor (nvars : nat) (sl : slots) (p : nat) : margs :=
  mkArgs (prev_p sl p) (map (prev_for_var sl p) (seq 0 nvars)).

Definition apply_dec (sl : slots) (p : nat) (dec : option (option op)) : slots :=
  match dec with None => sl | Some x => set_nth sl p x end.

Fixpoint apply_decs (sl : slots) (p : nat) (decs : list (option (option op))) : slots :=
  match decs with
  | [] => sl
  | d :: ds => apply_decs (apply_dec sl p d) (S p) ds
  end.

(* ------------------------------------------------------------------ *)
(* boolean equality on structures, for the executable checks           *)
Definition onat_eqb (a b : option nat) : bool :=
  match a, b with Some x, Some y => Nat.eqb x y | None, None => true | _, _ => false end.
Definition prel_eqb (a b : prel) : bool := Nat.eqb (fst a) (fst b) && Nat.eqb (snd a) (snd b).
Definition oprel_eqb (a b : option prel) : bool :=
  match a, b with Some x, Some y => prel_eqb x y | None, None => true | _, _ => false end.
Definition node_eqb (a b : node) : bool :=
  op_eqb (n_op a) (n_op b) && onat_eqb (n_prev a) (n_prev b) && onat_eqb (n_next a) (n_next b)
  && list_beq oprel_eqb (n_prev_v a) (n_prev_v b) && list_beq oprel_eqb (n_next_v a) (n_next_v b).
Definition onode_eqb (a b : option node) : bool :=
  match a, b with Some x, Some y => node_eqb x y | None, None => true | _, _ => false end.
Definition ovends_eqb (a b : option (prel * prel)) : bool :=
  match a, b with
  | Some (x1, x2), Some (y1, y2) => prel_eqb x1 y1 && prel_eqb x2 y2
  | None, None => true
  | _, _ => false
  end.
Definition fops_eqb (a b : fops) : bool :=
  list_beq onode_eqb (f_ops a) (f_ops b) && Nat.eqb (f_n a) (f_n b)
  && match f_ends a, f_ends b with
     | Some (x1, x2), Some (y1, y2) => Nat.eqb x1 y1 && Nat.eqb x2 y2
     | None, None => true
     | _, _ => false
     end
  && list_beq ovends_eqb (f_var_ends a) (f_var_ends b)
  && match f_counters a, f_counters b with
     | Some x, Some y => nats_eqb x y
     | None, None => true
     | _, _ => false
     end.
Definition margs_eqb (a b : margs) : bool :=
  onat_eqb (a_last_p a) (a_last_p b) && list_beq oprel_eqb (a_last a) (a_last b).

(* the refinement statement as a boolean test on one input *)
Definition refines_b (nvars : nat) (nb : option nat) (sl : slots) (p : nat) (dec : option (option op)) : bool :=
  let '(F, a) := mutate_p (build nvars nb sl) p dec (scan_cursor nvars sl p) in
  let sl' := apply_dec sl p dec in
  fops_eqb F (build nvars nb sl') && margs_eqb a (scan_cursor nvars sl' (S p)).
