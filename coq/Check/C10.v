(* Correspondence checker for C10: tempering steps on real Ising ladders. *)
From Coq Require Import List QArith ZArith NArith Bool Arith.
From QmcV Require Import Model.Prog Model.Sse Model.Ham Model.Diagonal Model.Tempering Proofs.SwapRatio Check.Common.
Import ListNotations.
Local Open Scope nat_scope.

Inductive case :=
| Step (par : bool) (reps : list replica) (tape : list word)
       (after : list (nat * state * slots)) (swaps : nat) (panicked : bool)
| Probe (a b : replica) (thr : N).

Definition close (thr : N) (p : Q) : bool :=
  let x := u64_to_unit thr in
  let tol := (tolden * (1 + p))%Q in
  Qle_bool (x - tol) p && Qle_bool (p - tol) x.

(* operator strings are compared up to trailing empty slots handled by padding both to the shared cutoff *)
Definition rep_matches (r : replica) (o : nat * state * slots) : bool :=
  let '(c, st, sl) := o in
  Nat.eqb (rp_cutoff r) c && bools_eqb (rp_state r) st && slots_eqb (rp_slots r) sl.

Definition check (c : case) : verdict :=
  match c with
  | Step par reps tape after swaps panicked =>
      if panicked then VFail
      else match run_tape (tempering_step p_swap swap_replicas (equalise reps)) tape with
           | RDone (reps', k) rest =>
               (* with a single replica the rayon driver draws one word the serial one does not;
                  ladders here have >= 2 replicas so the tapes must be consumed exactly *)
               of_bool (match rest with nil => true | _ => false end
                        && Nat.eqb k swaps
                        && Nat.eqb (length reps') (length after)
                        && forallb (fun '(r, o) => rep_matches r o) (combine reps' after))
           | RIndet => VIndet
           | RBad _ => VFail
           end
  | Probe a b thr =>
      match equalise [a; b] with
      (* [swap_hyps]: the executable premises of C05_p_swap_is_weight_ratio hold for this real pair
         (pairs with a longitudinal field on one side only are outside that theorem — [compatible] asks for
         equal has_long — and are decided by the probability comparison and the exact-Metropolis oracle alone) *)
      | [a'; b'] => of_bool (close thr (qmin1q (p_swap a' b'))
                             && (negb (Bool.eqb (has_long (rp_ham a')) (has_long (rp_ham b'))) || swap_hyps a' b'))
      | _ => VFail
      end
  end.

Definition run (base : N) (cs : list case) : list N * N := collect check base cs.
