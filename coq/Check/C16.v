(* Correspondence checker for C16: the model constructors / lookup / classification
   must reproduce what the implementation returned on the same input. *)
From Coq Require Import List QArith ZArith NArith Bool Arith.
From QmcV Require Import Model.Prog Model.Sse Model.Ham Check.Common.
Import ListNotations.

Record case := mk {
  kind : nat;                 (* 0 full, 1 full+offset, 2 diagonal, 3 diagonal+offset *)
  mat : list Q;
  vars : list nat;
  i_panicked : bool;          (* constructor / accessor panicked *)
  i_ok : bool;                (* constructor returned Ok *)
  i_const : bool;
  i_cdiag : bool;
  i_sym : bool;
  i_at : list (option Q);     (* at(ins, outs) for outs-major enumeration (n <= 3) *)
  i_offset : Q;               (* get_offset() afterwards *)
  i_sample_panicked : bool    (* 24 timesteps (diagonal / heat-bath / loop / cluster) panicked *)
}.

Definition model_ctor (c : case) : ctor_result * Q :=
  match kind c with
  | 0%nat => (new_full (mat c) (vars c), 0%Q)
  | 1%nat => new_full_offset (mat c) (vars c)
  | 2%nat => (new_diag (mat c) (vars c), 0%Q)
  | _ => new_diag_offset (mat c) (vars c)
  end.

Definition at_table (i : interaction) : list (option Q) :=
  let n := it_n i in
  if Nat.leb n 3 then
    flat_map (fun o => map (fun x => inter_at i (bits_of x n) (bits_of o n)) (seq 0 (2 ^ n)))
             (seq 0 (2 ^ n))
  else [].

Definition check (c : case) : verdict :=
  if i_panicked c then VFail
  else match model_ctor c with
       | (CErr, _) => of_bool (negb (i_ok c))
       | (COk i, m) =>
           of_bool (i_ok c
                    && Bool.eqb (is_constant i) (i_const c)
                    && Bool.eqb (is_constant_diag i) (i_cdiag c)
                    && Bool.eqb (sym_under_ising i) (i_sym c)
                    && list_beq oq_eqb (at_table i) (i_at c)
                    && Qeq_bool (- m) (i_offset c)
                    && negb (i_sample_panicked c))
       end.

Definition run (base : N) (cs : list case) : list N * N := collect check base cs.
