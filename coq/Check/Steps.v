(* Correspondence checker for whole public calls on both samplers (raw-tape replay). *)
From Coq Require Import List QArith ZArith NArith Bool Arith.
From QmcV Require Import Model.Prog Model.Sse Model.Ham Model.Diagonal Model.Nav Model.Cluster Model.ClusterValid Model.Loop
     Model.Steps Check.Common.
Import ListNotations.
Local Open Scope nat_scope.

Inductive case :=
| Ising (g : ising) (hb : bool) (beta : Q) (call : nat) (cutoff0 : nat) (st0 : state) (sl0 : slots)
        (tape : list word) (o_sl : slots) (o_st : state) (o_cutoff : nat) (o_panicked : bool)
| Generic (bonds : list (nat * list Q * list nat)) (hb loops : bool) (beta : Q) (cutoff0 : nat)
          (st0 : state) (sl0 : slots)
          (tape : list word) (o_sl : slots) (o_st : state) (o_cutoff : nat) (o_panicked : bool).

Definition build_bonds (specs : list (nat * list Q * list nat)) : option (list interaction) :=
  fold_right (fun '(k, m, vs) acc =>
                match acc with
                | None => None
                | Some l =>
                    let r := match k with
                             | 0 => new_full m vs
                             | 1 => fst (new_full_offset m vs)
                             | 2 => new_diag m vs
                             | _ => fst (new_diag_offset m vs)
                             end in
                    match r with COk i => Some (i :: l) | CErr => None end
                end) (Some []) specs.

Definition finish (r : res (option (slots * state * nat))) (o_sl : slots) (o_st : state) (o_cutoff : nat) : verdict :=
  match r with
  | RDone (Some (sl, st, c)) rest =>
      of_bool (match rest with [] => true | _ => false end
               && slots_eqb sl o_sl && bools_eqb st o_st && Nat.eqb c o_cutoff
               && valid_decomp o_st o_sl
               (* the configuration the model (= the implementation) ends in is a consistent periodic
                  world line: evaluated in Coq for the updates whose preservation is not a theorem
                  (directed loop), redundant for the others *)
               && wf o_st o_sl
               (* the premise of the loop / cluster world-line theorems on this configuration *)
               && ops_wellformed (length o_st) o_sl)
  | RDone None _ => VFail
  | RIndet => VIndet
  | RBad _ => VFail
  end.

Definition check (c : case) : verdict :=
  match c with
  | Ising g hb beta call cutoff0 st0 sl0 tape o_sl o_st o_cutoff o_panicked =>
      if o_panicked then VFail
      else
        let prog := match call with
                    | 0 => ising_timestep g hb beta cutoff0 st0 sl0
                    | 1 => ising_single_diagonal g hb beta cutoff0 st0 sl0
                    | _ => ising_single_cluster g cutoff0 st0 sl0
                    end in
        finish (run_tape prog tape) o_sl o_st o_cutoff
  | Generic specs hb loops beta cutoff0 st0 sl0 tape o_sl o_st o_cutoff o_panicked =>
      if o_panicked then VFail
      else match build_bonds specs with
           | None => VFail
           | Some bonds =>
               finish (run_tape (qmc_timestep (S (length tape)) bonds hb loops beta cutoff0 st0 sl0) tape)
                      o_sl o_st o_cutoff
           end
  end.

Definition run (base : N) (cs : list case) : list N * N := collect check base cs.
