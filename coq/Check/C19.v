(* Correspondence checker for C19: classical sampler time steps and per-move acceptance thresholds. *)
From Coq Require Import List QArith ZArith NArith Bool Arith.
From QmcV Require Import Model.Prog Model.Sse Model.Classical Check.Common.
Import ListNotations.
Local Open Scope nat_scope.

Inductive case :=
| Step (g : cgraph) (importance : bool) (beta : Q) (nspin nedge : nat) (s0 : state) (tape : list word)
       (s1 : state) (e1 : Q) (panicked : bool)
| StepFull (g : cgraph) (importance : bool) (beta : Q) (nspin nedge nworm : nat) (s0 : state) (tape : list word)
           (s1 : state) (e1 : Q)
| ProbeSpin (g : cgraph) (beta : Q) (s0 : state) (i : nat) (thr : N)
| ProbeEdge (g : cgraph) (importance : bool) (beta : Q) (s0 : state) (k : nat) (thr : N).

(* threshold t (on the u64 word; the code uses its top 53 bits) must lie within the model's bounds *)
Definition within (thr : N) (lo hi : Q) : bool :=
  let x := u64_to_unit thr in
  Qle_bool (lo - tolden) x && Qle_bool x (hi + tolden).

Definition accept_bounds (beta dE : Q) : Q * Q :=
  if Qle_bool dE 0 then (1%Q, 1%Q) else exp_neg_bounds (beta * dE).

Definition check (c : case) : verdict :=
  match c with
  | Step g imp beta nspin nedge s0 tape s1 e1 panicked =>
      if panicked then VFail
      else match run_tape (time_step exp_neg_bounds g imp beta nspin nedge s0) tape with
           | RDone s rest =>
               of_bool (match rest with nil => true | _ => false end
                        && bools_eqb s s1 && Qeq_bool (energy g s1) e1
                        && Qeq_bool (energy_coded g s1) e1)
           | RIndet => VIndet
           | RBad _ => VFail
           end
  | StepFull g imp beta nspin nedge nworm s0 tape s1 e1 =>
      match run_tape (time_step_full exp_neg_bounds g imp beta nspin nedge nworm s0) tape with
      | RDone s rest =>
          of_bool (match rest with nil => true | _ => false end
                   && bools_eqb s s1 && Qeq_bool (energy g s1) e1)
      | RIndet => VIndet
      | RBad _ => VFail
      end
  | ProbeSpin g beta s0 i thr =>
      let '(lo, hi) := accept_bounds beta (delta_spin g s0 i) in
      of_bool (within thr lo hi
               && Qeq_bool (energy g (flip s0 i) - energy g s0) (delta_spin g s0 i))
  | ProbeEdge g imp beta s0 k thr =>
      match nth_error (c_edges g) k with
      | Some (a, b, _) =>
          let '(lo, hi) := accept_bounds beta (delta_edge g s0 a b) in
          of_bool (within thr lo hi
                   && Qeq_bool (energy g (flip (flip s0 a) b) - energy g s0) (delta_edge g s0 a b))
      | None => VFail
      end
  end.

Definition run (base : N) (cs : list case) : list N * N := collect check base cs.
