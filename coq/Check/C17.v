(* Correspondence checker for C17: measurement helpers and tempering drivers on a scripted stepper. *)
From Coq Require Import List QArith ZArith NArith Bool Arith.
From QmcV Require Import Model.Prog Model.Sse Model.Stepper Model.Tempering Check.Common.
Import ListNotations.
Local Open Scope nat_scope.

Inductive case :=
| Measure (T : nat) (f : option nat) (kind zipn calls : nat) (states : list nat) (energy : Q) (steps : nat)
| Temper (T s f nrep : nat) (par : bool) (tape : list word) (temper_times : list nat)
         (sampled : list (list (nat * nat))) (energies : list Q).

(* mirrored in harness/src/c17.rs *)
Definition nfun (cfg k : nat) : nat := (cfg * 7 + k * 3 + cfg * k) mod 11.

Definition qclose (a b : Q) : bool :=
  let d := (a - b)%Q in
  Qle_bool d (1 # 1073741824) && Qle_bool (- d) (1 # 1073741824).

Definition beta : Q := 1 # 2.

Definition check_measure (T : nat) (fo : option nat) (kind zipn calls : nat) (states : list nat) (energy : Q) (steps : nat) : bool :=
  let f := match fo with Some f => f | None => 1 end in
  let '(sfin, acc, cnt, tot) :=
    measure S (nfun 3) (fun (acc : list nat) (k : nat) => acc ++ [k]) f T 0 [] in
  let expect_states := if Nat.eqb kind 3 then firstn zipn acc else acc in
  Nat.eqb steps T && Nat.eqb sfin T
  && list_beq Nat.eqb states expect_states
  && Nat.eqb calls (length expect_states)
  && qclose energy (energy_of (3 # 4) beta cnt tot).

(* simulate the driver's events on the scripted ladder *)
Record sim := mkSim {
  s_pos : list nat;            (* configuration id at each ladder position *)
  s_k : nat;                   (* steps done *)
  s_tape : list word;
  s_temper : list nat;
  s_samples : list (list (nat * nat));
  s_sums : list nat;
  s_ok : bool
}.

Definition step_sim (e : event) (s : sim) : sim :=
  match e with
  | EStep =>
      let k := S (s_k s) in
      mkSim (s_pos s) k (s_tape s) (s_temper s) (s_samples s)
            (map (fun '(c, x) => x + nfun c k) (combine (s_pos s) (s_sums s))) (s_ok s)
  | ESwap =>
      match run_tape (tempering_step (fun _ _ : nat => 1%Q) (fun a b : nat => (b, a)) (s_pos s)) (s_tape s) with
      | RDone (pos', _) rest =>
          mkSim pos' (s_k s) rest (s_temper s ++ [s_k s]) (s_samples s) (s_sums s) (s_ok s)
      | _ => mkSim (s_pos s) (s_k s) (s_tape s) (s_temper s) (s_samples s) (s_sums s) false
      end
  | ESample =>
      mkSim (s_pos s) (s_k s) (s_tape s) (s_temper s)
            (map (fun '(c, l) => l ++ [(c, s_k s)]) (combine (s_pos s) (s_samples s))) (s_sums s) (s_ok s)
  end.

Definition pair_eqb (a b : nat * nat) : bool := Nat.eqb (fst a) (fst b) && Nat.eqb (snd a) (snd b).

Definition check_temper (T s f nrep : nat) (tape : list word) (temper_times : list nat)
           (sampled : list (list (nat * nat))) (energies : list Q) : bool :=
  match driver (S T) s f T f s with
  | None => false
  | Some evs =>
      let s0 := mkSim (seq 0 nrep) 0 tape [] (repeat [] nrep) (repeat 0 nrep) true in
      let r := fold_left (fun st e => step_sim e st) evs s0 in
      s_ok r
      && (match s_tape r with nil => true | _ => false end)
      && list_beq Nat.eqb (s_temper r) temper_times
      && list_beq (list_beq pair_eqb) (s_samples r) sampled
      && Nat.eqb (length energies) nrep
      && forallb (fun '(i, (e, tot)) =>
                    qclose e ((Z.of_nat i # 4) - ((Z.of_nat tot # 1) / (Z.of_nat T # 1)) / beta)%Q)
                 (combine (seq 0 nrep) (combine energies (s_sums r)))
  end.

Definition check (c : case) : verdict :=
  match c with
  | Measure T f kind zipn calls states energy steps => of_bool (check_measure T f kind zipn calls states energy steps)
  | Temper T s f nrep par tape tts sampled energies => of_bool (check_temper T s f nrep tape tts sampled energies)
  end.

Definition run (base : N) (cs : list case) : list N * N := collect check base cs.
