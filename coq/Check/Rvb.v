(* Correspondence checker for the RVB update (raw-tape replay of single_rvb_sweep and of
   timesteps with automatic RVB). *)
From Coq Require Import List QArith ZArith NArith Bool Arith.
From QmcV Require Import Model.Prog Model.Sse Model.Ham Model.Diagonal Model.Nav Model.Cluster
     Model.Steps Model.Rvb Model.StepsRvb Check.Common.
Import ListNotations.
Local Open Scope nat_scope.

Inductive case :=
| Sweep (g : ising) (updates : nat) (st0 : state) (sl0 : slots) (tape : list word)
        (o_st : state) (o_sl : slots) (o_succ : nat)
| Step (g : ising) (hb : bool) (beta : Q) (cutoff0 : nat) (st0 : state) (sl0 : slots) (tape : list word)
       (o_st : state) (o_sl : slots) (o_cutoff : nat).

Definition check (c : case) : verdict :=
  match c with
  | Sweep g k st0 sl0 tape o_st o_sl o_succ =>
      match run_tape (single_rvb_sweep g (Some k) st0 sl0) tape with
      | RDone (Some (st, sl, succ)) rest =>
          of_bool (match rest with [] => true | _ => false end
                   && slots_eqb sl o_sl && bools_eqb st o_st && Nat.eqb succ o_succ
                   && wf o_st o_sl && Nat.eqb (count_ops o_sl) (count_ops sl0))
      | RDone None _ => VFail
      | RIndet => VIndet
      | RBad _ => VFail
      end
  | Step g hb beta cutoff0 st0 sl0 tape o_st o_sl o_cutoff =>
      match run_tape (ising_timestep_rvb g hb beta cutoff0 st0 sl0) tape with
      | RDone (Some (sl, st, c)) rest =>
          of_bool (match rest with [] => true | _ => false end
                   && slots_eqb sl o_sl && bools_eqb st o_st && Nat.eqb c o_cutoff && wf o_st o_sl)
      | RDone None _ => VFail
      | RIndet => VIndet
      | RBad _ => VFail
      end
  end.

Definition run (base : N) (cs : list case) : list N * N := collect check base cs.
