(* Correspondence checker for C11: the container's link fields, counts and ends (read through the
   serde snapshot) must equal what scanning the slots yields (Model/Nav.v). *)
From Coq Require Import List QArith ZArith NArith Bool Arith.
From QmcV Require Import Model.Prog Model.Sse Model.Nav Model.FastOps Model.FastOpsNav Check.Common.
Import ListNotations.
Local Open Scope nat_scope.

Record links := mkLinks {
  l_prev : option nat;
  l_next : option nat;
  l_prev_v : list (option (nat * nat));
  l_next_v : list (option (nat * nat))
}.

Inductive case :=
| Snap (nvars : nat) (sl : slots) (lk : list (option links)) (n : nat) (p_ends : option (nat * nat))
       (var_ends : list (option ((nat * nat) * (nat * nat)))) (counters : option (list nat))
(* consecutive mutate_p calls from position a with the callback's decisions: the branch-by-branch
   model of the linked structure (Model/FastOps.v) must produce exactly the implementation's structure *)
(* FastOps::new_from_ops on the (p, op) pairs of a string: the transcribed clear_and_install_ops must
   produce the implementation's structure, which is the scan of the slots *)
| Inst (nvars : nat) (pos : list (nat * op)) (after : fops)
| Mut (nvars : nat) (nb : option nat) (before : slots) (a : nat) (decs : list (option (option op))) (after : fops).

Definition on_eqb (a b : option nat) : bool :=
  match a, b with Some x, Some y => Nat.eqb x y | None, None => true | _, _ => false end.
Definition pp_eqb (a b : nat * nat) : bool := Nat.eqb (fst a) (fst b) && Nat.eqb (snd a) (snd b).
Definition opp_eqb (a b : option (nat * nat)) : bool :=
  match a, b with Some x, Some y => pp_eqb x y | None, None => true | _, _ => false end.

(* the bookkeeping a naive scan derives for the node at p *)
Definition expected_links (sl : slots) (p : nat) (o : op) : links :=
  mkLinks (prev_p sl p) (next_p sl p)
          (map (fun v => prev_for_var sl p v) (o_vars o))
          (map (fun v => next_for_var sl p v) (o_vars o)).

Definition links_eqb (a b : links) : bool :=
  on_eqb (l_prev a) (l_prev b) && on_eqb (l_next a) (l_next b)
  && list_beq opp_eqb (l_prev_v a) (l_prev_v b) && list_beq opp_eqb (l_next_v a) (l_next_v b).

Definition check (c : case) : verdict :=
  match c with
  | Snap nvars sl lk n p_ends var_ends counters =>
      of_bool (
        Nat.eqb (length lk) (length sl)
        && forallb (fun '(p, (s, l)) =>
                      match s, l with
                      | None, None => true
                      | Some o, Some l => links_eqb l (expected_links sl p o)
                      | _, _ => false
                      end) (combine (seq 0 (length sl)) (combine sl lk))
        && Nat.eqb n (count_ops sl)
        && match p_ends, first_p sl, last_p sl with
           | None, None, None => true
           | Some (a, b), Some x, Some y => Nat.eqb a x && Nat.eqb b y
           | _, _, _ => false
           end
        && Nat.eqb (length var_ends) nvars
        && forallb (fun '(v, e) =>
                      match e, first_for_var sl v, last_for_var sl v with
                      | None, None, None => negb (var_has_ops sl v)
                      | Some (a, b), Some x, Some y => pp_eqb a x && pp_eqb b y && var_has_ops sl v
                      | _, _, _ => false
                      end) (combine (seq 0 nvars) var_ends)
        && match counters with
           | None => true
           | Some cs => forallb (fun '(b, c) => Nat.eqb c (count_bond b sl)) (combine (seq 0 (length cs)) cs)
           end)
  | Inst nvars pos after =>
      let F := clear_and_install (new_fops nvars None) pos in
      of_bool (fops_eqb F after && fops_eqb F (build nvars None (slots_of pos)))
  | Mut nvars nb before a decs after =>
      (* the cursor is built by the transcribed fill_args_at_p (backward walk over the links), the
         mutations by the transcribed mutate_p; the world-line walks of the result must enumerate
         exactly the operators on each variable *)
      let F := mutate_subsection (build nvars nb before) a decs in
      of_bool (fops_eqb F after
               && margs_eqb (fill_args_at_p (build nvars nb before) a) (scan_cursor nvars before a)
               && forallb (fun v => list_beq prel_eqb (walk_var F v) (ops_on_var (contents F) v)) (seq 0 nvars)
               && nats_eqb (walk_p F) (occupied (contents F)))
  end.

Definition run (base : N) (cs : list case) : list N * N := collect check base cs.
