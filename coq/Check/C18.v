(* Correspondence checker for C18: real per-call borrow/return traces (hook) against the pool model
   with the capacities extracted from the source on this run. *)
From Coq Require Import List QArith ZArith NArith Bool Arith.
From QmcV Require Import Model.Prog Model.Sse Model.Pool Generated.PoolCaps Check.Common.
Import ListNotations.
Local Open Scope nat_scope.

Inductive case :=
| Call (kind : nat) (trace : list ev) (occupancy_after : list nat) (panicked : bool).

Definition check (c : case) : verdict :=
  match c with
  | Call kind trace occ panicked =>
      of_bool (negb panicked
               && call_ok pool_caps trace
               && pool_eqb occ pool_caps
               && return_resets_buffer && pool_never_generates_more)
  end.

Definition run (base : N) (cs : list case) : list N * N := collect check base cs.
