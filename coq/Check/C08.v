(* Correspondence checker for C08: whole sweeps replayed on the raw tape, and exact
   per-decision thresholds measured on the implementation vs the model's probabilities. *)
From Coq Require Import List QArith ZArith NArith Bool Arith.
From QmcV Require Import Model.Prog Model.Sse Model.Ham Model.Diagonal Check.Common Check.Table.
Import ListNotations.
Local Open Scope nat_scope.

Inductive case :=
| Sweep (t : table) (L : nat) (beta : Q) (st0 : state) (sl0 : slots) (hb : bool)
        (tape : list word) (o_sl : slots) (o_st : state) (o_n : nat) (o_panicked : bool)
| Probe (t : table) (L : nat) (beta : Q) (st0 : state) (sl0 : slots) (hb : bool)
        (kind b : nat) (thr : N).

Definition update_prog (t : table) (L : nat) (beta : Q) (st0 : state) (sl0 : slots) (hb : bool) :=
  let H := table_ham t in
  if hb then hb_update H (bond_weights H) beta L st0 sl0 else met_update H beta L st0 sl0.

Definition first_prob {A} (m : prog A) : option Q :=
  match m with
  | Bern p _ => Some (qclip p)
  | BernRatio a b _ => Some (ratio_prob a b)
  | _ => None
  end.

Definition close (thr : N) (p : Q) : bool :=
  let x := u64_to_unit thr in
  let tol := (tolden * (1 + p))%Q in
  Qle_bool (x - tol) p && Qle_bool (p - tol) x.

Fixpoint qsum_firstn (n : nat) (l : list Q) : Q :=
  match n, l with
  | S k, x :: r => (x + qsum_firstn k r)%Q
  | _, _ => 0%Q
  end.

Definition probe_prob (t : table) (L : nat) (beta : Q) (st0 : state) (sl0 : slots) (hb : bool)
           (kind b : nat) : option Q :=
  let H := table_ham t in
  let sl := pad L sl0 in
  let n := count_ops sl in
  let o := hd None sl in
  let bw := bond_weights H in
  match kind with
  | 0 => match met_slot H L n beta st0 None with
         | Unif _ f => first_prob (f (N.of_nat b))
         | _ => None
         end
  | 1 => first_prob (met_slot H L n beta st0 o)
  | 2 => first_prob (hb_slot H bw L n beta st0 None)
  | 3 => match hb_slot H bw L n beta st0 None with
         | Bern _ f => match f true with
                       | ChooseAcc cs _ =>
                           let '(mw, w) := nth b cs (0%Q, 0%Q) in
                           Some (if Qle_bool mw 0 then 0%Q else qclip (w / mw))
                       | _ => None
                       end
         | _ => None
         end
  | 4 => first_prob (hb_slot H bw L n beta st0 o)
  | 5 => Some (qsum_firstn (S b) bw / Qsum bw)%Q
  | 6 => Some (Qmake (Z.of_nat (S b)) 1 / Qmake (Z.of_nat (h_nbonds H)) 1)%Q
  | _ => None
  end.

Definition check (c : case) : verdict :=
  match c with
  | Sweep t L beta st0 sl0 hb tape o_sl o_st o_n o_panicked =>
      if o_panicked then VFail
      else match run_tape (update_prog t L beta st0 sl0 hb) tape with
           | RDone (sl, n, st) rest =>
               of_bool (match rest with [] => true | _ => false end
                        && slots_eqb sl o_sl && bools_eqb st o_st && Nat.eqb n o_n)
           | RIndet => VIndet
           | RBad _ => VFail
           end
  | Probe t L beta st0 sl0 hb kind b thr =>
      match probe_prob t L beta st0 sl0 hb kind b with
      | Some p => of_bool (close thr p)
      | None => VFail
      end
  end.

Definition run (base : N) (cs : list case) : list N * N := collect check base cs.
