(* Table Hamiltonians used by the harness (arbitrary diagonal weight tables). *)
From Coq Require Import List QArith ZArith NArith Bool Arith.
From QmcV Require Import Model.Prog Model.Sse Model.Ham.
Import ListNotations.
Local Open Scope nat_scope.

Record table := mkTable {
  t_vars : list (list nat);
  t_consts : list bool;
  t_diag : list (list Q);     (* per bond, indexed by big-endian sub-state *)
  t_offw : Q
}.

Definition table_ham (t : table) : ham :=
  mkHam (length (t_vars t))
        (fun b => nth b (t_vars t) [])
        (fun b => nth b (t_consts t) false)
        (fun b ins outs => if bools_eqb ins outs then nth (index_of_bits ins) (nth b (t_diag t) []) 0%Q
                           else t_offw t).
