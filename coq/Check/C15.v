(* Correspondence checker for C15: into_qmc. *)
From Coq Require Import List QArith ZArith NArith Bool Arith.
From QmcV Require Import Model.Prog Model.Sse Model.Ham Model.Convert Check.Common.
Import ListNotations.
Local Open Scope nat_scope.

Inductive case :=
| Conv (g : ising) (c0 : nat) (st0 : state) (sl0 : slots) (panicked : bool)
       (c1 : nat) (st1 : state) (sl1 : slots) (offset : Q)
       (elements : list (list (option Q))) (cluster loops : bool).

Definition at_table (i : interaction) : list (option Q) :=
  let n := it_n i in
  flat_map (fun o => map (fun x => inter_at i (bits_of x n) (bits_of o n)) (seq 0 (2 ^ n))) (seq 0 (2 ^ n)).

Definition check (c : case) : verdict :=
  match c with
  | Conv g c0 st0 sl0 panicked c1 st1 sl1 offset elements cluster loops =>
      if panicked then VFail
      else match convert_bonds g with
           | None => VFail
           | Some bonds =>
               of_bool (Nat.eqb c1 (convert_cutoff c0) && bools_eqb st1 st0 && slots_eqb sl1 sl0
                        && Qeq_bool offset (convert_offset g)
                        && list_beq (list_beq oq_eqb) (map at_table bonds) elements
                        && Bool.eqb cluster (should_cluster bonds)
                        && negb loops)
           end
  end.

Definition run (base : N) (cs : list case) : list N * N := collect check base cs.
