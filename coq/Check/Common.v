(* Shared helpers for the correspondence checkers (executable, no proofs). *)
From Coq Require Import List QArith ZArith NArith Bool.
From QmcV Require Import Model.Prog Model.Sse Model.Nav Model.Cluster Model.ClusterValid.
Import ListNotations.

Definition oq_eqb (a b : option Q) : bool :=
  match a, b with
  | Some x, Some y => Qeq_bool x y
  | None, None => true
  | _, _ => false
  end.

(* verdict of one case *)
Inductive verdict := VOk | VIndet | VFail.

(* indices (offset by base) of failing cases, and the number of indeterminate ones *)
Fixpoint collect {A} (chk : A -> verdict) (base : N) (cs : list A) : list N * N :=
  match cs with
  | [] => ([], 0%N)
  | c :: r =>
      let '(bad, ind) := collect chk (N.succ base) r in
      match chk c with
      | VOk => (bad, ind)
      | VIndet => (bad, N.succ ind)
      | VFail => (base :: bad, ind)
      end
  end.

Definition of_bool (b : bool) : verdict := if b then VOk else VFail.

Fixpoint bits_of (idx n : nat) : list bool :=
  match n with
  | O => []
  | S k => Nat.testbit idx k :: bits_of idx k
  end.

(* certified validation of the cluster decomposition (Proofs/ClusterFlipProofs.v): a labelling accepted
   here makes every flip outcome preserve world-line consistency and (for symmetric weights) the weight *)
Definition valid_decomp (st : state) (sl : slots) : bool :=
  if Nat.eqb (count_ops sl) 0 then true
  else match decompose sl with
       | Some (b, _) => links_ok sl b && sides_ok sl b && vars_in_range (length st) sl
       | None => false
       end.
