(* Correspondence checker for C09: cluster update on synthetic strings. *)
From Coq Require Import List QArith ZArith NArith Bool Arith.
From QmcV Require Import Model.Prog Model.Sse Model.Nav Model.Cluster Check.Common.
Import ListNotations.
Local Open Scope nat_scope.

Inductive case :=
| Case (st0 : state) (sl0 : slots) (tape : list word) (sl1 : slots) (st1 : state) (ncl : nat) (panicked : bool).

Definition check (c : case) : verdict :=
  match c with
  | Case st0 sl0 tape sl1 st1 ncl panicked =>
      if panicked then VFail
      else match run_tape (cluster_update (1 # 2) None sl0 st0) tape with
           | RDone (Some (sl, st, n)) rest =>
               of_bool (match rest with nil => true | _ => false end
                        && slots_eqb sl sl1 && bools_eqb st st1 && Nat.eqb n ncl
                        && valid_decomp st0 sl0)
           | RDone None _ => VFail
           | RIndet => VIndet
           | RBad _ => VFail
           end
  end.

Definition run (base : N) (cs : list case) : list N * N := collect check base cs.
