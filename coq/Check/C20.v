(* Correspondence checker for C20: results of the autocorrelation helpers vs the rational specification. *)
From Coq Require Import List QArith ZArith NArith Bool Arith.
From QmcV Require Import Model.Prog Model.Sse Model.Stepper Model.Autocorr Check.Common.
Import ListNotations.
Local Open Scope nat_scope.

Inductive case :=
| Scripted (timesteps period nobs pattern : nat) (result : list Q) (panicked : bool)
| Series (samples : list (list Q)) (result : list Q).

(* mirrored in harness/src/c20.rs *)
Definition obs (pattern j k : nat) : Q :=
  let v := match pattern mod 3 with
           | 0 => (k * (3 + j) + j * j) mod 13
           | 1 => (k * k + j * 5 + k * j) mod 11
           | _ => ((k / (1 + j mod 2)) * 7 + j) mod 9
           end in
  (Qmake (Z.of_nat v) 4 - 1)%Q.

Definition qclose (a b : Q) : bool :=
  let d := (a - b)%Q in Qle_bool d (1 # 1073741824) && Qle_bool (- d) (1 # 1073741824).

Definition matches (samples : list (list Q)) (result : list Q) : bool :=
  let spec := ac_spec samples in
  Nat.eqb (length result) (length samples)
  && forallb (fun '(a, b) => qclose a b) (combine result spec).

Definition check (c : case) : verdict :=
  match c with
  | Scripted timesteps period nobs pattern result panicked =>
      if panicked then VFail
      else
        (* exactly the states after steps f, 2f, ... are recorded *)
        let samples := map (fun k => map (fun j => obs pattern j k) (seq 0 nobs)) (sample_times period timesteps) in
        of_bool (matches samples result)
  | Series samples result => of_bool (matches samples result)
  end.

Definition run (base : N) (cs : list case) : list N * N := collect check base cs.
