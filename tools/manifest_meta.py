HOOK_COMMITS = []

PENDING = "not claimed yet: the model, theorems and correspondence for this property are still being built (see DESIGN.md §5 for the order of work)"
NOT_APPLICABLE = {("C%02d" % i): PENDING for i in range(1, 21)}

META = {
    "C16": {
        "text": "Coq theorems over all matrices and variable lists (unbounded sizes): a constructor accepts exactly the right-sized, "
                "non-negative matrices; lookup returns the documented entry; constant / constant-diagonal / Ising-symmetry flags hold "
                "iff the matrix has the property; all weights of an accepted interaction are >= 0. The Gallina constructors are tied to "
                "qmc_runner.rs by running both on an exhaustive size grid plus thousands of matrices and comparing every observable.",
        "note": "Trusted: Coq kernel + vm_compute; the transcription Model/Ham.v is validated only by the correspondence (differential) check; "
                "EPSILON comparisons modelled as exact equality (inputs are dyadic); sampleability is checked by running 24 mixed timesteps per accepted case.",
        "technique": "Coq proof (induction over lists/bits) + vm_compute correspondence against the real constructors",
        "design_ref": "DESIGN.md §3 C16",
    },
}
