HOOK_COMMITS = ["fa41d26"]

PENDING = "not claimed yet: the model, theorems and correspondence for this property are still being built (see DESIGN.md §5 for the order of work)"
NOT_APPLICABLE = {("C%02d" % i): PENDING for i in range(1, 21)}

META = {
    "C01": {
        "text": 'PARTIAL proof. Coq theorems (all Hamiltonian tables, cutoffs, strings, betas; no bounds). HEADLINE (unconditional, C01_ising_model_pipeline_stationary): for every Ising model without longitudinal field whose edges name existing spins, every beta > 0 and cutoff, the OWN timestep pipeline of the model (Metropolis diagonal update, cluster update, free-spin refresh - the term proved equal to the model of QmcIsingGraph::timestep and replayed against the implementation on raw RNG words) leaves the SSE weight stationary on the space of ALL consistent legal configurations; the cluster decomposition is proved to return only labellings that pass the validators (C09_decomposition_is_valid), so no validation wrapper is needed any more. Earlier form with the validation wrapper (kept): where the validators pass the validated cluster stage is the cluster update of the model, and the validity test is the one evaluated in Coq on every replayed configuration. Kernel identification: the WHOLE Metropolis diagonal update, as a program on complete configurations (p = 0 state, operator string) — the very term replayed against the implementation on raw RNG words — leaves the SSE weight beta^n (L-n)!/L! prod w stationary on the space of ALL consistent legal configurations (enumeration proved complete): sum_x W(x) E_{update(x)}[f] = sum_x W(x) f(x) for every observable f, and pointwise sum_x W(x) P(x->y) = W(y). Ingredients, all proved: the sweep program equals the composition of single-slot kernels; each single-slot kernel is in detailed balance with W between any two configurations, keeps the space and has total mass 1 (zero-weight operators have probability zero entry by entry); stationarity composes. The whole default pipeline diagonal update -> cluster update (one fair bit per cluster, involution, weight kept) -> free-spin refresh is proved stationary as ONE program for h = 0 on every space closed under the moves on which the decomposition passes the C09 validators; the hypotheses are decidable and hold on a fully enumerated example space (flow equation evaluated at all 30 configurations); the pipeline is proved equal to the model of QmcIsingGraph::timestep; the same with a longitudinal field (weighted cluster update: clusters holding a field operator have probability 0; conditions asked only of flip vectors of non-zero probability, decidable, checked on an example space with a field term: 42 configurations). Also: matrix elements are those of H; clusters with a field operator flip with probability 0. NOT proved: ergodicity (hence convergence), the estimator identities, that the per-flip conditions of the weighted cluster update hold on every space (hypotheses, decidable). These are decided by long runs of the real sampler against exact diagonalisation (energy, magnetisations, correlations, operator counts per bond; h = 0, +, -).',
        "note": "Trusted: Coq kernel + vm_compute; model transcriptions (validated by raw-tape replay of every public call); f64 exact-diagonalisation oracle with 6 sigma + 0.02 tolerance and a confirmation run. Stationarity of the model's update programs is a theorem; ergodicity / convergence itself is oracle-tested, not proved.",
        "technique": 'Coq proof (expectation monad law, detailed balance of every single-slot kernel on the complete configuration space, sweep = composition of slot kernels, stationarity of the whole diagonal update and of the whole h = 0 pipeline) + raw-tape replay of whole timesteps + exact-diagonalisation oracle',
        "design_ref": "DESIGN.md §3 C01",
    },
    "C02": {
        "text": 'PARTIAL proof. Coq theorems for every weight table (unequal maximum weights included): the WHOLE heat-bath diagonal update, as a program on complete configurations, leaves the same SSE weight stationary as the Metropolis update on the complete configuration space (weak form for every observable, and pointwise), and so does the whole pipeline heat-bath update -> cluster update -> refresh on validated spaces; the heat-bath slot program (insert with beta W/(L-n+beta W), bond ~ max weight, accept w/max; remove with (L-n+1)/(L-n+1+beta W)) has total mass 1, gives zero-weight operators probability zero entry by entry, and is in detailed balance with W between any two configurations; the table has one entry per bond equal to the maximum over all 2^k sub-states. The program and the table are tied to heatbath.rs by raw-tape replay and threshold bisection (c08) and by whole-step replay with heat bath on (steps, including samplers whose interactions are added in two stages with the option toggled in between); convergence with heat bath on (Ising with and without RVB and field, generic with 3-variable terms, staged interaction sets) is decided against exact diagonalisation.',
        "note": "Trusted: Coq kernel + vm_compute; model transcriptions; exact-diagonalisation oracle. Convergence itself is oracle-tested, not proved.",
        "technique": 'Coq proof (stationarity of the whole heat-bath update program for the SSE weight; slot kernel detailed balance; table = max over all sub-states) + raw-tape replay / threshold bisection + exact-diagonalisation oracle',
        "design_ref": "DESIGN.md §3 C02",
    },
    "C03": {
        "text": "PARTIAL proof. rvb.rs, util/bondcontainer.rs and util/vec_help.rs are transcribed into an executable Gallina model (Model/Rvb.v: region search with the weighted boundary sets and their swap-remove key order, overlap search, acceptance ratio, graph rewrite, order of all RNG draws) and every single_rvb_sweep / RVB-enabled timestep of the correspondence histories is replayed by it on the raw RNG words (state, operator string and success count must agree). "
                "Coq theorems about the transcription, for all inputs: the boundary set is a finite map (distinct keys kept by insert / swap-remove, lookup semantics, running total), a draw returns key i with probability w_i/total and a zero-weight bond with probability exactly 0, toggle positions keep exactly the odd multiplicities, region sizes follow 2^-k, and for EVERY sequence of random draws a sweep keeps each operator at its slot (operator count, string and state lengths). "
                "Coq theorems about the abstract move (re-draw n boundary operators in proportion to their post-flip weights, accept with min(1,(W_after/W_before)^n)): it balances the configuration weight exactly, a zero ratio is never accepted, such kernels compose. "
                "NOT proved: that the transcribed region search realises the abstract move (detailed balance of the concrete program), ergodicity; these are decided by exact diagonalisation with automatic and explicit RVB (heat bath, h = 0,+,-, frustrated triangles, multi-edges, unequal |J|) and by world-line, legality, counter and structural checks after every call.",
        "note": "Trusted: Coq kernel + vm_compute; the transcription Model/Rvb.v (validated by raw-tape replay; the container is seen through its scan specification, C11); exact-diagonalisation oracle; naive checkers.",
        "technique": "Coq proof (boundary-set refinement, draw law, structural invariants of the transcribed RVB update for all draw sequences; acceptance algebra of the abstract move) + raw-tape replay of real RVB sweeps + exact-diagonalisation and structural oracles",
        "design_ref": "DESIGN.md §3 C03",
    },
    "C04": {
        "text": "PARTIAL proof. Coq theorems for every Hamiltonian, operator arity and leg pair: the heat-bath exit choice of the directed loop satisfies W(o) P(o; e->x) = W(o') P(o'; x->e); a bounce changes nothing; the whole diagonal update of the generic sampler (Metropolis or heat bath, table built from the interaction list) leaves the SSE weight of its matrices stationary on the complete configuration space; for symmetric sets the whole pipeline diagonal -> cluster -> refresh is stationary on validated spaces; cluster updates are enabled exactly when every interaction is spin-flip symmetric and a constant single-site term exists; loop updates preserve leg parity (explains the known finding) and always close into a consistent world line (every start, every exit sequence). The generic timestep (diagonal, loops with their start choice, clusters, refresh) is replayed on raw RNG words against the real one; stored operators are checked against the matrix elements of the SUPPLIED tables (not the library's lookup); convergence on exchange models (also next to 2- and 3-site energy shifts), symmetric diagonal + constant sets, mixed arities, staged interaction sets, with and without heat bath, is decided against exact diagonalisation. Not proved: stationarity of the whole loop update as a kernel, ergodicity.",
        "note": "Trusted: Coq kernel + vm_compute; model transcriptions; exact-diagonalisation oracle. Known finding (odd-parity) is listed in known_findings.json and reported as KNOWN-FINDING.",
        "technique": "Coq proof (vertex detailed balance, slot reversibility, cluster gate, parity invariant) + raw-tape replay of generic timesteps + exact-diagonalisation oracle",
        "design_ref": "DESIGN.md §3 C04",
    },
    "C05": {
        "text": "PARTIAL proof. Program-level theorem: the WHOLE replica-exchange step of the model (tempering_step: fair choice of the order of the two pairing phases, one Metropolis test per neighbouring pair; the term replayed on the container's raw words) leaves the product of the replicas' own SSE weights W_0(C_0) W_1(C_1) ... stationary, in weak form for every observable, on every ladder space closed under neighbour exchanges whose neighbouring pairs satisfy the executable premise swap_hyps; each pairing phase is proved to be a reversible kernel on ladders (transition probabilities computed pair by pair, pair-level Metropolis balance from the ratio identity, involution of the exchange); the step kernel is proved equal to the model program; premises shown satisfiable on a two-replica ladder with different Hamiltonians and betas. Not proved: that the time steps between exchanges keep each factor stationary beyond C01's scope (h != 0 cluster kernel, RVB), ergodicity. Further Coq theorems: for Ising replicas on the same graph with same-sign couplings, the implemented swap probability p_swap times the product weight before the exchange equals the product weight after it (beta factor and Hamiltonian factor from bond counts, all strings, all ladders); a Metropolis exchange with that ratio balances the product weight, also inside a longer ladder; a pair is exchanged with probability exactly min(1,p_swap), moving only the configuration, under one shared cutoff. "
                "Tempering steps of the serial and rayon drivers are replayed on raw RNG words and every swap threshold is bisected (c10), with the theorem's executable premise evaluated on every probed pair; that every rung samples its own thermal distribution is decided against exact diagonalisation on ladders of 2-5 replicas. PARTIAL: per-replica stationarity is C01-C03, ergodicity is oracle-tested.",
        "note": "Trusted: Coq kernel + vm_compute; model transcription; rayon (C13); exact-diagonalisation oracle.",
        "technique": "Coq proof (swap probability = weight ratio; exchange balance on the product weight) + raw-tape replay / threshold bisection of tempering steps + exact-diagonalisation oracle",
        "design_ref": "DESIGN.md §3 C05",
    },
    "C16": {
        "text": "Coq theorems over all matrices and variable lists (unbounded sizes): a constructor accepts exactly the right-sized, "
                "non-negative matrices; lookup returns the documented entry; constant / constant-diagonal / Ising-symmetry flags hold "
                "iff the matrix has the property; all weights of an accepted interaction are >= 0. The Gallina constructors are tied to "
                "qmc_runner.rs by running both on an exhaustive size grid plus thousands of matrices and comparing every observable.",
        "note": "Trusted: Coq kernel + vm_compute; the transcription Model/Ham.v is validated only by the correspondence (differential) check; "
                "EPSILON comparisons modelled as exact equality (inputs are dyadic); sampleability is checked by running 24 mixed timesteps per accepted case.",
        "technique": "Coq proof (induction over lists/bits) + vm_compute correspondence against the real constructors",
        "design_ref": "DESIGN.md §3 C16",
    },
    "C08": {
        "text": "Coq theorems for every Hamiltonian table, cutoff L, count n<L, state, bond and beta (no bounds): the exact insertion probability times (L-n) equals beta*w times the exact removal probability, in the clipped and unclipped regime, for the Metropolis and the heat-bath program; off-diagonal ops are returned unchanged; the count threaded through the sweep is the live one; and the same on complete configurations: the update of slot p (state at p obtained by propagation, count read from the string) is in detailed balance with the SSE weight between ANY two consistent legal configurations, with an explicit formula for its transition probability. The two programs are tied to diagonal.rs/heatbath.rs by replaying whole sweeps of the real code on the raw RNG words (bit-exact decisions, rand's rejection zone included) and by bisecting every accept/remove/bond-choice threshold of the real code to the exact word and comparing it with the model's probability to 2^-40.",
        "note": "Trusted: Coq kernel + vm_compute; TapeRng; the rand 0.8.8 decoding rules in run_tape; dyadic inputs so f64 products are exact. "
                "A model-independent oracle recomputes P_ins/P_rem from the measured thresholds alone and compares with beta*w/(L-n).",
        "technique": "Coq proof over Q (field/lra, list induction) + raw-tape replay and threshold bisection against the real code",
        "design_ref": "DESIGN.md §3 C08",
    },
    "C12": {
        "text": "Coq theorems for all initial cutoffs and all runs (lists of operator counts of any length): the growth rule never shrinks the cutoff and always "
                "leaves a free slot plus a margin of n/2; the model time steps of both samplers apply exactly that rule to the count the update leaves; "
                "a diagonal update can never leave more operators than slots. The model time steps are tied to the code by replaying every public call "
                "(timestep, single_diagonal_step, single_cluster_step; Ising and generic sampler; initial cutoffs from 1) on the raw RNG words and comparing "
                "operator string, state and reported cutoff exactly.",
        "note": "Trusted: Coq kernel + vm_compute; transcription of the samplers in Model/Steps.v (validated by whole-call tape replay); "
                "an oracle checks monotonicity and headroom directly on get_cutoff/get_n after every call.",
        "technique": "Coq proof (nat arithmetic, induction over runs, support lemmas for the probabilistic programs) + whole-call raw-tape replay",
        "design_ref": "DESIGN.md §3 C12",
    },
    "C17": {
        "text": "Coq theorems for every step function, fold, T, sampling period and swap period (no bounds): the measuring loop folds exactly the states after steps "
                "f, 2f, ... (floor(T/f) of them, in order) and sums their operator counts; the chunked tempering driver is trace-equivalent to 'T single steps, swap phase after every s-th, "
                "sample after every f-th'; its energy accounting equals the per-step average for every chunking. The loops are tied to qmc_stepper.rs / tempering_container.rs by running the real "
                "helpers (timesteps_measure/_sample/_sample_iter/_sample_iter_zip, serial and rayon drivers) on a scripted stepper and comparing fold calls, sampled states, swap times, RNG words and energies.",
        "note": "Trusted: Coq kernel + vm_compute; Model/Stepper.v and Model/Tempering.v transcriptions (validated by the correspondence); energies compared to 2^-30 because the code averages in f64.",
        "technique": "Coq proof (induction on steps/fuel, div/mod arithmetic, field on Q) + scripted-stepper correspondence incl. raw-tape replay of swap phases",
        "design_ref": "DESIGN.md §3 C17",
    },
    "C10": {
        "text": "The transition probabilities of a whole pairing phase are computed pair by pair in closed form (exchanged with min(1,p_swap), kept with the complement, independently per pair, nothing else reachable) and the phase is a reversible kernel for the product weight (see C05). Coq theorems: a pair is exchanged with probability exactly min(1, p_swap) (exact distribution of the swap program, any p_swap); an exchange moves only operator string and "
                "state; the counter counts accepted exchanges; all replicas share the ladder-maximum cutoff; the temperature factor equals the ratio of the beta^n weight factors. "
                "The model's p_swap (bond-count formula incl. the Hamiltonian ratio and the HamInfo equality shortcut) is tied to the code by replaying serial and rayon tempering steps of real "
                "Ising ladders (2..8 replicas, unequal cutoffs) on the container's raw RNG words, and by bisecting the uniform at which an exchange flips and comparing it with the model to 2^-40.",
        "note": "Trusted: Coq kernel + vm_compute; Model/Tempering.v transcription; an oracle recomputes W_a(C_b)W_b(C_a)/(W_a(C_a)W_b(C_b)) op by op in Rust and compares with the measured swap probability. "
                "The identity p_swap = that ratio is proved for the beta factor; for the Hamiltonian factor it currently rests on the oracle + correspondence (see DESIGN.md).",
        "technique": "Coq proof (exact denotation of the swap program, Qpower algebra) + raw-tape replay and threshold bisection against real tempering containers",
        "design_ref": "DESIGN.md §3 C10",
    },
    "C15": {
        "text": "Coq theorems for all couplings J, fields and variables: every term into_qmc builds is accepted by the generic constructors (conversion cannot fail), acts on the same variables with the "
                "same cluster-edge flag, and has exactly the Ising sampler's matrix elements (all 16 two-site patterns, all transverse patterns, diagonal field patterns; no off-diagonal field part); "
                "the offsets differ by N*Gamma, so energies differ by a run-independent constant. Convert.v is tied to the code by comparing every matrix element of every converted bond, the offset, the flags and the "
                "carried-over state / operator string / cutoff on random samplers converted before any step and after k steps; the trajectory clause is decided by lock-step runs from the same RNG state.",
        "note": "Trusted: Coq kernel + vm_compute; Model/Convert.v transcription. Known finding (recorded, not repaired): for h != 0 the converted sampler cannot follow the original's trajectory "
                "(the generic sampler has no weighted cluster update and performs none once the field term breaks Ising symmetry).",
        "technique": "Coq proof (case analysis over Q with lra) + element-by-element correspondence and lock-step differential runs",
        "design_ref": "DESIGN.md §3 C15",
    },
    "C19": {
        "text": "Coq theorems for every graph (multi-edges, any J, any biases), state and site/edge: the energy differences used by the spin and edge moves equal E(after)-E(before) for the "
                "energy the sampler reports; proposals are state independent (uniform or |J|-weighted); moves are involutions that keep the spin count; and Metropolis acceptance min(1,exp(-beta dE)) "
                "with a direction-independent proposal satisfies detailed balance w.r.t. exp(-beta E) (over the stdlib reals). The model is tied to graph.rs by replaying basic-move time steps on the raw tape "
                "and by bisecting the acceptance threshold of every spin and edge move and comparing it with rational brackets of exp(-beta dE). "
                "The worm move is transcribed and replayed on the raw tape as well (time steps with all three move sets); for it the stationarity clause is REFUTED in Coq: C19_worm_refuted exhibits a graph and a state from which the worm goes to a state of strictly higher reported energy with probability 1 for every acceptance function and beta, which no kernel reversible w.r.t. exp(-beta E) can do (C19_reversible_cannot_go_uphill_surely); the witness is replayed on the implementation by every run (KNOWN-FINDING worm). The worm keeps the spin count for every draw sequence.",
        "note": "Trusted: Coq kernel + vm_compute; Model/Classical.v; exp bracket; real-number axioms of the standard library (named). Known finding: the worm move is not Boltzmann-stationary "
                "(its bias term has the opposite sign to get_energy; the pinned tests test_worm_flip_bias(_not) encode that sign, so it cannot be repaired without editing tests).",
        "technique": "Coq proof (list induction + lra over Q; Reals.exp for the acceptance identity; refutation theorem with witness for the worm move) + raw-tape replay of all three move sets and threshold bisection",
        "design_ref": "DESIGN.md §3 C19",
    },
    "C09": {
        "text": "Coq theorems for every operator string, labelling and flip outcome: the cluster flip leaves the skeleton (number, positions, bonds, variables, constant flags) unchanged; re-decomposing the result yields the identical decomposition; a cluster containing a zero-ratio (symmetry-breaking) operator has weight 0 and a zero-probability cluster is flipped with probability 0; for every labelling accepted by the validators the flip keeps the world line, the weight product and is an involution; as a kernel on complete configurations (one fair bit per cluster) the update reaches y from x exactly as likely as x from y, weights included (detailed balance), and equals the model's cluster_update for every observable. THE DECOMPOSITION ITSELF IS PROVED CORRECT (Proofs/DecomposeProofs.v, loop invariant over labelling / frontier / interior stack with 'effective labels'; periodic neighbours proved mutually inverse): every labelling the transcribed decomposition returns, for any operator string, passes both validators, and the decomposition is TOTAL (Proofs/DecomposeTotal.v: with the fuel the model supplies it returns for every operator string; one potential W - open legs of non-edge operators, unlabelled sides, unlabelled operators - is lowered by every iteration of the inner loop together with the stack size and by every iteration of the outer loop together with the frontier size): C09_decomposition_correct is total correctness. So the model's own cluster update - no validation wrapper - is stationary for the SSE weight on the complete configuration space of every flip-symmetric table. The model transcribes the exploration order of cluster.rs, so that one raw RNG word maps to the same cluster in model and code; it is replayed bit-exactly on synthetic random strings and on equilibrium strings, and the validators are evaluated in Coq on every replayed decomposition.",
        "note": 'Trusted: Coq kernel + vm_compute; Model/Cluster.v. That decompose yields only labellings accepted by links_ok / sides_ok is now a theorem (C09_decomposition_is_valid); termination within the fuel of the model is a theorem too (C09_decomposition_total). The unrestricted flip statement (arbitrary labelling) is refuted in Coq; the validators still run on every correspondence configuration as a cross-check.',
        "technique": "Coq proof (fold invariants, exact mass of the draw program) + raw-tape replay of the real cluster update incl. cluster numbering",
        "design_ref": "DESIGN.md §3 C09",
    },
    "C06": {
        "text": "Coq theorems, for all Hamiltonian tables, cutoffs, strings and outcomes: both diagonal-update variants satisfy a structural slot specification, and any update satisfying it maps a consistent periodic "
                "configuration to a consistent periodic one with the same p=0 state; the free-spin refresh, cutoff padding and replica swaps preserve consistency; the imaginary-time fold visits exactly the propagated states, one per slot; the cluster flip preserves consistency for every validated labelling; "
                "the directed-loop update closes into a consistent configuration for every Hamiltonian, arity, start leg and every sequence of exit choices (segment-flip invariant). "
                "Every public call (timestep with and without RVB, single_diagonal_step, single_cluster_step, single_rvb_sweep, generic timestep with loops/clusters, tempering steps in C10) is replayed by the model on the raw RNG words, wf is evaluated in Coq on every replayed result, and an independent world-line checker runs after every call.",
        "note": "Trusted: Coq kernel + vm_compute; model transcriptions. Partial: consistency after the RVB update (transcribed, replayed, checked, not proved) (the cluster decomposition is proved to yield only validated labellings: C09_decomposition_is_valid).",
        "technique": "Coq proof (support induction over the sweep program; segment-flip invariant of the directed loop for all draw sequences) + whole-call raw-tape replay + independent checker after every call",
        "design_ref": "DESIGN.md §3 C06",
    },
    "C07": {
        "text": "Coq theorems: a diagonal sweep stores only structurally legal terms (valid bond, that bond's variables in order, constant flag, arities) given a legal string; zero-weight operators are inserted with probability exactly 0 in both variants; "
                "spin-flip-only updates keep every bond at its position; a directed-loop update leaves an operator of non-positive weight behind with probability exactly 0; a cluster flip with a validated labelling keeps every operator legal. The legality of every stored operator (incl. strictly positive matrix element) is checked against the configured Hamiltonian after every public call of both samplers.",
        "note": "Trusted: Coq kernel + vm_compute; model transcriptions. Partial: positivity after RVB updates rests on the legality oracle only.",
        "technique": "Coq proof (support induction, exact masses) + whole-call raw-tape replay + legality oracle after every call",
        "design_ref": "DESIGN.md §3 C07",
    },
    "C11": {
        "text": "Coq refinement theorem (no bounds): the linked structure of FastOps::mutate_p, transcribed branch by branch (quick install, unlink, relink, cursor advance), started from the structure and cursor a scan yields, ends in exactly the structure and cursor a scan of the updated slots yields — for every string, position and decision; by induction every reachable structure equals the scan of its contents. Also proved: the cursor construction fill_args_at_p (backward walk over the links with early exit) builds exactly the scan cursor, so mutate_subsection as a whole refines (side condition: every stored operator acts on >= 1 variable; without it a refutation theorem with witness); following the per-variable / global links enumerates exactly the operators on a variable / the occupied slots in time order (what constant_ops_on_var, cluster and loop walks rely on). The model is replayed on the real mutation sequences and must reproduce the implementation's complete link structure. Also: theorems about the scan-based specification (unbounded strings): occupied positions are exactly the slots holding an operator, in time order; n is their number; first/last are the extremes; per-bond counts add up to n; "
                "'variable has operators' holds iff some stored operator acts on it. The implementation's private linked structure (every previous/next link, global and per variable, n, p_ends, var_ends, bond counters) is read through serde after EVERY mutation "
                "of long random mutation sequences (mutate_ps, sub-ranges, mutate_ops, sub-variable cursors, threaded mutate_p cursors, set_cutoff, new_from_ops, and the real samplers' histories) and compared in Coq with that specification; getters are compared with scans as well.",
        "note": "Trusted: Coq kernel + vm_compute; serde view of the container; Model/FastOps.v transcription (validated by replaying real mutate_p sweeps). Not transcribed: fill_args_at_p, clear_and_install_ops, mutate_subsection_ops, Varlist cursors (differential only); panic freedom is not a theorem.",
        "technique": "Coq refinement proof (linked structure = scan of contents, induction over mutation sequences) + replay of real mutation sequences by the linked-structure model + per-mutation differential check of every link field",
        "design_ref": "DESIGN.md §3 C11",
    },
    "C18": {
        "text": "Coq theorem over all sequences of calls of any length: if each call, started from full pools, never exhausts a pool and returns everything, then no sequence of calls can ever fail with pool exhaustion and the occupancy at every call boundary equals the initial one. "
                "The premise is checked in Coq (vm_compute of the pool machine) on the real borrow/return trace of every public call — Ising updates with every option combination, RVB sweeps, generic steps with loops/clusters/isolated variables, windowed and sub-variable container calls — against capacities re-extracted from the source on this run; peaks reach the capacities exactly.",
        "note": "Trusted: Coq kernel + vm_compute; tools/extract.py; the allocator hook. Limitation: 'on every control path' is covered only for the paths the traced calls take (no static path analysis of the Rust code).",
        "technique": "Coq proof (induction over call sequences) + hook-traced correspondence with generated capacities",
        "design_ref": "DESIGN.md §3 C18",
    },
    "C20": {
        "text": "Coq theorems: the specification returns one entry per sample; lag 0 is exactly 1 for non-constant columns; the samples are the states after steps f, 2f, ... (floor(T/f) of them); and, over any field with a primitive T-th root of unity and for every length T, "
                "the unnormalised inverse DFT of X_k * X_{-k} equals T times the circular autocorrelation (the algebraic identity behind the FFT route; mathcomp, axiom free). "
                "The helpers (calculate_autocorrelation, variable / spin-product / bond variants, the rayon tempering variant) are run on a scripted stepper with known observable values and on real samplers, for even / odd / prime / power-of-two lengths and periods 1-3, and compared with the rational specification evaluated in Coq.",
        "note": "Trusted: Coq kernel + vm_compute; rustfft (tolerance comparison 2^-30); the specification is the documented formula in exact rationals (the sqrt normalisation cancels).",
        "technique": "Coq proof (stdlib Q for the specification, mathcomp big operators for the DFT identity) + specification-vs-implementation correspondence",
        "design_ref": "DESIGN.md §3 C20",
    },
    "C14": {
        "text": "Coq theorems: in the field-mode model a state whose fields are fully serialised or empty count-only pools is restored exactly by restore o snapshot; the field lists re-extracted from the Rust source on this run contain no skipped field, the only "
                "count-only field is the allocator's buffer list, and the RNG-less mirror with both conversions (and Clone) carries every field; a continuation is a function of (state, RNG words). "
                "Every step index of random runs (before any step, mid-growth of the cutoff, all option combinations) and tempering containers right after swaps are snapshot points: direct and RNG-less round trips, verify(), JSON equality of everything serde exposes, "
                "and lock-step continuation against the uninterrupted run; a restored copy's next step is also replayed by the model.",
        "note": "Trusted: Coq kernel + vm_compute; extract.py; serde_json. Partial: value-level faithfulness of each field is established differentially at every snapshot point, not by a theorem about serde.",
        "technique": "Coq proof (field-mode round trip + generated-field obligations by vm_compute) + snapshot/restore/continue differential at every step index",
        "design_ref": "DESIGN.md §3 C14",
    },
    "C13": {
        "text": "Coq theorems: every update is a function of (configuration, RNG words); replaying a composed program equals replaying its parts in sequence (so a clone continues like its original); drawing a swap phase's uniforms ahead of time (rayon driver) yields, on every tape, "
                "exactly the lazily drawn (serial) decisions; independent per-replica updates give the same vector under every execution order. Equal-seed twins, clones taken at random steps, and serial vs rayon drivers under pools of 1..16 threads (repeated) are compared exhaustively through serde; twin steps are replayed by the model.",
        "note": "Trusted: Coq kernel + vm_compute; rayon and Rust's &mut disjointness (no executable model of work stealing). The serial and parallel tempering steps are both replayed by the same model on the same words in C10/C17.",
        "technique": "Coq proof (tape-replay monad laws, permutation invariance of commuting updates) + twin/clone/thread-pool differential runs",
        "design_ref": "DESIGN.md §3 C13",
    },
}
