#!/bin/bash
# confirm_seed.sh <seed-dir> : independently confirm a seeded change in a fresh scratch worktree.
#  (1) demo passes on the unchanged tree, (2) with the patch: build ok, existing suite passes, demo fails.
set -u
SD="$1"; ID=$(basename "$SD")
WT=/tmp/confirm_$ID
META="$SD/meta.json"
PLACE=$(python3 -c "import json;print(json.load(open('$META'))['demo']['place_at'])")
DEMOF=$(python3 -c "import json,os;print(os.path.basename(json.load(open('$META'))['demo']['file']))")
RUN=$(python3 -c "import json;print(json.load(open('$META'))['demo']['run'])")
git -C /repo worktree remove --force $WT >/dev/null 2>&1
git -C /repo worktree add --detach $WT HEAD -q || exit 2
cp /repo/Cargo.lock $WT/ 2>/dev/null
export CARGO_NET_OFFLINE=true CARGO_TARGET_DIR=$WT/target
mkdir -p $(dirname $WT/$PLACE); cp "$SD/$DEMOF" "$WT/$PLACE"
cd $WT
RUNCMD=$(echo "$RUN" | sed -e 's/CARGO_NET_OFFLINE=true//' -e 's#cd /tmp/wt_[A-Za-z0-9_]* *&& *##' -e 's#CARGO_TARGET_DIR=[^ ]*##')
echo "== demo on unchanged tree: $RUNCMD"
( eval "$RUNCMD" ) > $WT/demo_clean.log 2>&1; R1=$?
rm -f "$WT/$PLACE"
git apply "$SD/patch.diff" || { echo "PATCH DOES NOT APPLY"; exit 2; }
echo "== existing suite with patch"
cargo test --workspace --no-fail-fast --offline > $WT/suite.log 2>&1; R2=$?
cargo test --offline --features "tempering parallel-tempering serialize" --lib > $WT/suite2.log 2>&1; R2b=$?
cp "$SD/$DEMOF" "$WT/$PLACE"
echo "== demo with patch"
( eval "$RUNCMD" ) > $WT/demo_patched.log 2>&1; R3=$?
PASSN=$(grep -h "^test result" $WT/suite.log | awk '{s+=$4} END{print s}')
echo "RESULT id=$ID demo_clean_exit=$R1 suite_exit=$R2 (passed=$PASSN) feature_suite_exit=$R2b demo_patched_exit=$R3"
if [ $R1 -eq 0 ] && [ $R2 -eq 0 ] && [ $R2b -eq 0 ] && [ $R3 -ne 0 ]; then echo "CONFIRMED $ID"; else echo "NOT CONFIRMED $ID"; tail -5 $WT/demo_clean.log $WT/suite.log $WT/demo_patched.log; fi
cd /; git -C /repo worktree remove --force $WT
