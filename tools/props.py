"""Per-property configuration of the check driver."""

PROPS = {
    "C16": {
        "harness_cmd": "c16",
        "property_files": ["C16.v"],
        "expected_theorems": [
            "C16_full_accepts_exactly", "C16_diag_accepts_exactly", "C16_full_offset_via_plain",
            "C16_diag_offset_via_plain", "C16_at_full", "C16_at_diag", "C16_constant_exact",
            "C16_constant_diag_exact_full", "C16_constant_diag_exact_diag", "C16_symmetry_exact_full",
            "C16_symmetry_exact_diag", "C16_accepted_weights_nonneg",
        ],
        "assumptions": [
            "the library's chained |a-b|<EPSILON comparisons are modelled as exact equality; generated entries are "
            "multiples of 1/8, so the two coincide on every generated input",
            "variable lists are distinct indices below the sampler's variable count (out-of-range variables are outside the property's quantifier)",
        ],
        "trusted_base": ["Model/Ham.v transcription of qmc_runner.rs Interaction::{new,new_offset,new_diagonal,new_diagonal_offset,at,sym_under_ising}"],
    },
    "C08": {
        "harness_cmd": "c08",
        "property_files": ["C08.v"],
        "expected_theorems": [
            "C08_metropolis_balance", "C08_heatbath_balance", "C08_offdiag_untouched_metropolis",
            "C08_offdiag_untouched_heatbath", "C08_count_is_live", "C08_weight_le_maxweight",
            "C08_empty_slot_headroom", "C08_acceptances_are_probabilities",
            "C08_slot_kernel_detailed_balance", "C08_metropolis_slot_good", "C08_heatbath_slot_good", "C08_slot_kernel_probability",
        ],
        "assumptions": [
            "weights, beta are dyadic rationals so that every f64 product the code forms is exact; quotients are compared with a 2^-40 tolerance",
            "containers are never longer than the cutoff (a user-lowered cutoff via set_cutoff is outside the property)",
        ],
        "trusted_base": ["Model/Diagonal.v transcription of diagonal.rs / heatbath.rs; rand 0.8.8 gen_range / gen_bool decoding in Model/Prog.v"],
    },
    "C12": {
        "harness_cmd": ["steps", "c10"],
        "oracle_props": ["C12"],
        "property_files": ["C12.v"],
        "expected_theorems": [
            "C12_cutoff_never_shrinks", "C12_headroom", "C12_run", "C12_run_ge_initial", "C12_ising_timestep_rule",
            "C12_ising_single_diagonal_rule", "C12_generic_timestep_rule", "C12_count_le_cutoff",
            "C12_source_rules_keep_headroom", "C12_source_rules_are_the_model_rule", "C12_source_rule_sites_found",
        ],
        "assumptions": [
            "a 'run' is a sequence of timestep / single_* calls; an explicit user call of set_cutoff may lower the reported cutoff and is outside the property",
            "the statistical clause (tiny and generous initial cutoffs reach the same averages) follows from headroom + C01 and is not separately sampled",
        ],
        "trusted_base": ["Model/Steps.v transcription of QmcIsingGraph::timestep / single_diagonal_step / single_cluster_step and Qmc::timestep"],
    },
    "C17": {
        "harness_cmd": "c17",
        "property_files": ["C17.v"],
        "expected_theorems": [
            "C17_measure_spec", "C17_sample_times_exact", "C17_sample_count", "C17_sample_order",
            "C17_driver_trace", "C17_driver_steps", "C17_driver_energy_is_average",
        ],
        "assumptions": [
            "the helpers are exercised through a scripted QmcStepper (state encodes configuration id and step count) so that every fold call, swap phase and sample is observable; "
            "the real samplers' get_n / state_ref are covered by the Steps correspondence (C06/C12)",
            "domain: at least one sample (T >= f), as in the property",
        ],
        "trusted_base": ["Model/Stepper.v transcription of timesteps_measure_with_self and of the chunked while-loop of (parallel_)timesteps_sample"],
    },
    "C10": {
        "harness_cmd": "c10",
        "oracle_props": ["C10"],
        "property_files": ["C10.v"],
        "expected_theorems": [
            "C10_pair_swap_probability", "C10_clip_is_min", "C10_pair_outcomes", "C10_swap_moves_only_configuration",
            "C10_shared_cutoff", "C10_equalise_only_grows", "C10_beta_factor",
            "C10_phase_transition_probabilities", "C10_pair_balance",
        ],
        "assumptions": [
            "J, Gamma, h, beta are dyadic so the quotients formed by relative_weight are compared with a 2^-40 tolerance only",
            "ladders have >= 2 replicas (with one replica the rayon driver draws one container word the serial one does not; return values are equal)",
        ],
        "trusted_base": ["Model/Tempering.v transcription of tempering_step / perform_swaps / swap_on_chunks / relative_weight / HamInfo::eq"],
    },
    "C15": {
        "harness_cmd": "c15",
        "property_files": ["C15.v"],
        "expected_theorems": ["C15_edge_term", "C15_transverse_term", "C15_field_term", "C15_energy_constant"],
        "assumptions": [
            "the trajectory clause is checked for the default option set (Metropolis diagonal update, no RVB): into_qmc does not carry heat-bath tables or the RVB flag and the property does not quantify over options",
            "trajectory equality for h = 0 is decided by lock-step runs of the two real samplers plus the whole-call replays of C06/C12 (both follow their models), not by a Coq theorem",
        ],
        "trusted_base": ["Model/Convert.v transcription of IntoQmc::into_qmc"],
    },
    "C19": {
        "harness_cmd": "c19",
        "property_files": ["C19.v"],
        "expected_theorems": [
            "C19_delta_spin_exact", "C19_delta_edge_exact", "C19_spin_selection_state_independent", "C19_edge_selection_uniform",
            "C19_edge_selection_importance", "C19_flip_involutive", "C19_spin_count_constant", "C19_move_detailed_balance",
            "C19_worm_refuted", "C19_reversible_cannot_go_uphill_surely", "C19_worm_keeps_spin_count",
        ],
        "assumptions": [
            "graphs have no self-loop edges (a == b); couplings, biases, beta are dyadic",
            "exp(-beta dE) is bracketed in Coq by rational bounds (Taylor + argument reduction, outward rounding at 2^-160); the bracket function is part of the correspondence apparatus, not of the theorems",
            "the worm move is transcribed (Model/Classical.v worm_move) and replayed on the raw tape like the other moves; the property's stationarity clause is FALSE for it (theorem C19_worm_refuted with its witness; known finding 'worm')",
        ],
        "trusted_base": ["Model/Classical.v transcription of graph.rs do_spin_flip / do_edge_flip / should_flip / do_time_step / get_energy",
                         "stdlib real-number axioms (ClassicalDedekindReals.sig_forall_dec, sig_not_dec, functional_extensionality_dep, Classical_Prop.classic) via Reals.exp in C19_move_detailed_balance only"],
    },
    "C09": {
        "harness_cmd": ["c09", "steps"],
        "oracle_props": ["C09", "C07", "C06"],
        "property_files": ["C09.v"],
        "expected_theorems": ["C09_skeleton_unchanged", "C09_operator_count_unchanged", "C09_redecomposition_identical",
                              "C09_broken_cluster_weight_zero", "C09_zero_probability_cluster_never_flips", "C09_flip_keeps_worldline",
                              "C09_flip_keeps_weight", "C09_flip_keeps_weight_with_broken_clusters", "C09_flip_involutive", "C09_validator_links",
            "C09_cluster_kernel_detailed_balance", "C09_cluster_update_is_kernel",
        ],
        "assumptions": [
            "world-line and weight preservation are proved for every labelling accepted by the executable validator (links_ok, sides_ok); that the decomposition algorithm always produces such a labelling is checked by evaluating the validator on every configuration of the correspondence runs (certified-checker style), not proved for all strings",
        ],
        "trusted_base": ["Model/Cluster.v transcription of flip_each_cluster_rng incl. its exploration order (validated by raw-tape replay: cluster numbering decides which RNG word flips which cluster)"],
    },
    "C06": {
        "harness_cmd": ["steps", "c10", "rvb", "c15"],
        "oracle_props": ["C06"],
        "property_files": ["C06.v"],
        "expected_theorems": ["C06_metropolis_slot_spec", "C06_heatbath_slot_spec", "C06_diagonal_update_keeps_worldline", "C06_refresh_keeps_worldline",
                              "C06_padding_keeps_worldline", "C06_swap_keeps_worldline", "C06_itime_fold_states", "C06_itime_fold_one_per_slot", "C06_cluster_flip_keeps_worldline",
                              "C06_loop_update_keeps_worldline", "C06_loop_update_keeps_worldline_outcomes", "C06_segment_flip_keeps_worldline", "C06_segment_flip_across_time_boundary"],
        "assumptions": [
            "the cluster flip is proved for validated labellings (validator evaluated on every correspondence case); world-line preservation by the directed loop is a Coq theorem for every start and every sequence of exit choices (premise: operators well formed — variables in range and distinct, one value per leg — evaluated on every correspondence case); for the RVB update it is decided by the independent world-line checker after every call plus the bit-exact model correspondence and an in-Coq evaluation of wf on every replayed result, not by a theorem",
            "containers are never longer than the cutoff (set_cutoff lowering is outside a run)",
        ],
        "trusted_base": ["Model/Steps.v, Model/Cluster.v, Model/Loop.v transcriptions validated by whole-call tape replay"],
    },
    "C07": {
        "harness_cmd": ["steps", "rvb", "c15"],
        "oracle_props": ["C07"],
        "property_files": ["C07.v"],
        "expected_theorems": ["C07_sweep_structural_legality", "C07_inserted_ops_are_legal_terms", "C07_zero_weight_never_inserted_metropolis",
                              "C07_zero_weight_never_inserted_heatbath", "C07_spin_flips_keep_bond_positions",
                              "C07_loop_never_stores_nonpositive", "C07_generic_weights_nonneg", "C07_cluster_flip_keeps_legality"],
        "assumptions": [
            "positivity is proved as 'zero-weight operators are inserted / produced with probability 0' for the diagonal updates and the directed loop, and as preservation of legality for cluster flips with validated labellings; for the RVB update it is decided by the legality oracle after every call only",
        ],
        "trusted_base": ["Model/Steps.v transcription validated by whole-call tape replay"],
    },
    "C11": {
        "harness_cmd": ["c11", "steps"],
        "oracle_props": ["C11"],
        "property_files": ["C11.v"],
        "expected_theorems": ["C11_occupied_exact", "C11_occupied_in_time_order", "C11_count_is_number_of_occupied", "C11_first_is_minimum",
                              "C11_last_is_maximum", "C11_bond_counts_add_up", "C11_var_has_ops_exact",
                              "C11_mutate_p_refines", "C11_sweep_invariant", "C11_new_container_is_scan", "C11_cutoff_growth_refines", "C11_cursor_matches_node",
                              "C11_world_line_walk_is_scan", "C11_global_walk_is_scan", "C11_constant_ops_on_var_is_scan", "C11_does_var_have_ops_is_scan",
                              "C11_fill_args_at_p_is_scan_cursor", "C11_mutate_subsection_refines", "C11_fill_args_zero_variable_refuted"],
        "assumptions": [
            "the refinement theorems cover mutate_p with the All cursor, construction, cutoff growth and the link walks (per-variable and global: they enumerate exactly what a scan finds). fill_args_at_p (All) is transcribed (Model/FastOpsNav.v) and PROVED equal to the scan cursor for every string whose operators act on at least one variable each (with only zero-variable operators stored the code leaves last_p unset: refutation theorem with witness; no library caller reaches it), hence mutate_subsection as a whole refines; clear_and_install_ops, mutate_subsection_ops and sub-variable (Varlist) / hinted cursors are not transcribed — they are covered by the per-mutation differential check of every link field and by the RVB replay (C03), which runs them through their scan specification",
            "the model is total (a read through a missing node yields None): panic freedom of the unwrap / index sites is not a theorem",
            "mutation callbacks respect the container's contracts: mutate_ops / sub-variable cursors only replace operators on the same variables (removal through mutate_ops reads next_p of the removed node and panics; a cursor cannot be prepared at p = len)",
        ],
        "trusted_base": ["serde_json view of FastOps (ops, links, n, p_ends, var_ends, bond_counters)"],
    },
    "C18": {
        "harness_cmd": "c18",
        "property_files": ["C18.v"],
        "expected_theorems": ["C18_no_exhaustion_ever", "C18_full_at_every_call_boundary", "C18_call_ok_means_balanced", "C18_source_facts"],
        "assumptions": [
            "the premise 'every public call borrows within capacity and returns everything' is established on the real borrow/return traces of every call the harness makes (allocator hook behind --cfg qmc_verif) — control paths the harness does not reach are not covered",
            "capacities, reset-on-return and gen_more=false are re-extracted from the Rust source on every run (tools/extract.py) and compared with the serde occupancy",
        ],
        "trusted_base": ["tools/extract.py (regex-level parser)", "the cfg(qmc_verif) hook in src/util/allocator.rs (commit fa41d26), thread-local, add-only"],
    },
    "C20": {
        "harness_cmd": "c20",
        "property_files": ["C20.v", "C20dft.v"],
        "expected_theorems": ["C20_one_entry_per_sample", "C20_lag_zero_is_one", "C20_sample_cadence", "C20_sample_count", "C20_dft_route"],
        "assumptions": [
            "rustfft is trusted: results are compared with the rational specification to 2^-30, not bit for bit",
            "observable columns are non-constant (the property's domain; a constant column divides by zero in the code)",
        ],
        "trusted_base": ["Model/Autocorr.v (rational specification); mathcomp 1.15 algebra for the DFT identity (axiom free)"],
    },
    "C14": {
        "harness_cmd": "c14",
        "property_files": ["C14.v"],
        "expected_theorems": ["C14_roundtrip", "C14_source_fields_ok", "C14_continuation_deterministic"],
        "assumptions": [
            "serde_json is trusted; the RNG used is the harness' serialisable TapeRng (SmallRng is not serialisable)",
            "the field-mode model abstracts values; that each field's VALUE survives (e.g. the cutoff, not just a cutoff) is decided by JSON equality after the round trip and by continuing restored and uninterrupted runs in lock-step at every step index",
        ],
        "trusted_base": ["tools/extract.py field lists (Generated/SerdeFields.v)", "serde / serde_json"],
    },
    "C13": {
        "harness_cmd": "c13",
        "property_files": ["C13.v"],
        "expected_theorems": ["C13_step_is_a_function", "C13_replay_composes", "C13_predrawn_equals_lazy", "C13_any_schedule_same_result"],
        "assumptions": [
            "real work-stealing interleavings are outside any executable Gallina model: that the parallel closures touch disjoint replicas is Rust's &mut / par_iter_mut guarantee under #![forbid(unsafe_code)] (trusted); the rest is differential (pools of 1..16 threads, repeated)",
        ],
        "trusted_base": ["rayon; Rust's aliasing rules for par_iter_mut"],
    },
    "C01": {
        "harness_cmd": ["steps", "c09", "c08", "thermal --only C01"],
        "oracle_props": ["C01"],
        "property_files": ["C01.v"],
        "expected_theorems": ["C01_two_site_elements", "C01_transverse_elements", "C01_longitudinal_elements", "C01_weight_fill_ratio",
                              "C01_metropolis_slot_reversible", "C01_slot_stationary_empty", "C01_slot_stationary_bond",
                              "C01_cluster_flip_keeps_weight", "C01_cluster_flip_reversible", "C01_broken_cluster_never_flips",
                              "C01_reversible_is_stationary", "C01_sweep_stationary", "C01_offset_accounting"
            , "C01_metropolis_update_stationary", "C01_metropolis_update_stationary_pointwise", "C01_configuration_space_complete", "C01_configuration_space_ok", "C01_sweep_is_composition_of_slot_kernels", "C01_slot_kernel_detailed_balance", "C01_stationary_kernels_compose",
            "C01_timestep_stationary", "C01_timestep_is_pipeline", "C01_cluster_update_stationary", "C01_refresh_stationary", "C01_refresh_is_sweep", "C01_space_check_sound",
        ],
        "assumptions": [
            "PARTIAL: proved are (i) the matrix elements, (ii) reversibility of every elementary move of the default pipeline w.r.t. the SSE configuration weight, (iii) that reversible stochastic kernels are stationary and that sweeps of stationary kernels are stationary. "
            "Not proved in Coq: the identification of the concrete sweep programs with finite indexed kernels, ergodicity, and the estimator identities <n_b> = beta <H_b>, E = offset - <n>/beta (Sandvik's SSE derivation); these are covered by the exact-diagonalisation oracle",
            "cluster-flip weight preservation holds for labellings accepted by the executable validator, evaluated on every correspondence case (C09)",
        ],
        "trusted_base": ["Model/Steps.v transcription of QmcIsingGraph::timestep validated by whole-call raw-tape replay",
                         "exact diagonalisation oracle (harness/src/thermal.rs: dense expm by scaling and squaring, f64)"],
    },
    "C02": {
        "harness_cmd": ["c08", "steps", "thermal --only C02"],
        "oracle_props": ["C02"],
        "property_files": ["C02.v"],
        "expected_theorems": ["C02_heatbath_slot_reversible", "C02_same_ratio_as_metropolis", "C02_table_length", "C02_table_entry",
                              "C02_weight_le_maxweight", "C02_all_substates_scanned", "C02_offdiag_untouched"
            , "C02_heatbath_update_stationary", "C02_heatbath_update_stationary_pointwise", "C02_slot_kernel_detailed_balance", "C02_heatbath_slot_total",
            "C02_heatbath_timestep_stationary",
        ],
        "assumptions": [
            "PARTIAL as C01: slot-level reversibility of the heat-bath program w.r.t. the same configuration weight is proved for every weight table; convergence of the whole chain is covered by the exact-diagonalisation oracle",
            "table invalidation when interactions change is exercised through the generic histories (heat bath switched on before / after adding interactions) only",
        ],
        "trusted_base": ["Model/Diagonal.v transcription of heatbath.rs (bond-weight table, cumulative choice, rejection) validated by raw-tape replay and threshold bisection (c08)",
                         "exact diagonalisation oracle"],
    },
    "C03": {
        "harness_cmd": ["rvb", "thermal --only C03"],
        "oracle_props": ["C03"],
        "property_files": ["C03.v"],
        "expected_theorems": ["C03_rotation_balance", "C03_zero_ratio_never_accepted", "C03_acceptance_is_probability", "C03_composes",
                              "C03_bondcontainer_insert_keeps_keys_distinct", "C03_bondcontainer_insert_lookup", "C03_bondcontainer_remove",
                              "C03_bondcontainer_swap_remove_is_permutation", "C03_bondcontainer_total_after_remove",
                              "C03_draw_probability", "C03_zero_weight_bond_never_drawn", "C03_toggle_positions_odd_multiplicity",
                              "C03_region_size_law", "C03_region_size_is_distribution", "C03_sweep_keeps_operator_slots",
                              "C03_sweep_count_unchanged", "C03_sweep_count_unchanged_on_tape"],
        "assumptions": [
            "PARTIAL: rvb.rs / bondcontainer.rs / vec_help.rs are transcribed (Model/Rvb.v) and replayed on raw RNG words; component and structural theorems are proved about the transcription, the balance theorem about the abstract move. "
            "That the transcribed region search realises the abstract move (detailed balance of the concrete program) is not proved; convergence is decided by exact diagonalisation on frustrated / multi-edge / h != 0 models with automatic and explicit RVB",
            "the model reads the container through its scan specification (constant operators on a variable, operators touching the sub-variables in time order, state propagated up to p); the linked structure refines that specification (C11), and fill_args_at_p_with_hint / get_propagated_substate_with_hint / mutate_subsection_ops are thereby covered by the replay, not transcribed branch by branch",
            "J, Gamma, h dyadic: all boundary-set totals are exact in f64; an acceptance value within 2^-40 of 1 that was not computed exactly is reported as indeterminate (the implementation may or may not draw a word)",
        ],
        "trusted_base": ["Model/Rvb.v transcription validated by raw-tape replay (harness/src/rvb.rs)", "exact diagonalisation oracle",
                         "naive world-line / legality / bookkeeping checkers (harness/src/rvb.rs)"],
    },
    "C04": {
        "harness_cmd": ["steps", "thermal --only C04"],
        "oracle_props": ["C04"],
        "property_files": ["C04.v"],
        "expected_theorems": ["C04_vertex_balance", "C04_exit_weight_is_new_weight", "C04_reverse_total", "C04_bounce_unchanged",
                              "C04_metropolis_slot_reversible", "C04_cluster_gate", "C04_symmetry_meaning", "C04_weights_nonneg",
                              "C04_loop_keeps_leg_parity", "C04_diagonal_ops_even", "C04_loop_never_stores_nonpositive", "C04_loop_closes_consistently",
            "C04_cluster_pipeline_stationary", "C04_diagonal_update_stationary",
        ],
        "assumptions": [
            "PARTIAL: vertex-level detailed balance of the directed loop (for every Hamiltonian, arity and leg pair), slot-level reversibility of the diagonal update and the cluster gate are proved; closure of a loop into a consistent configuration is proved for every start and exit sequence (C04_loop_closes_consistently); convergence is decided by exact diagonalisation",
            "KNOWN FINDING odd-parity: interaction sets whose only spin-flip elements have odd leg parity (single-site matrices that are not constant, e.g. [2,1,1,0.5]) are accepted but not sampled ergodically (C04_loop_keeps_leg_parity explains why)",
        ],
        "trusted_base": ["Model/Loop.v, Model/Steps.v transcriptions validated by whole-call raw-tape replay", "exact diagonalisation oracle"],
    },
    "C05": {
        "harness_cmd": ["c10", "thermal --only C05"],
        "oracle_props": ["C05"],
        "property_files": ["C05.v"],
        "expected_theorems": ["C05_exchange_balance", "C05_exchange_balance_in_ladder", "C05_pair_swap_probability", "C05_swap_moves_only_configuration",
                              "C05_beta_factor", "C05_shared_cutoff", "C05_sweep_stationary", "C05_relative_weight_is_weight_ratio",
                              "C05_p_swap_is_weight_ratio", "C05_p_swap_is_weight_ratio_checked",
            "C05_tempering_step_stationary", "C05_phase_detailed_balance", "C05_step_is_model_step",
        ],
        "assumptions": [
            "the swap-ratio theorem needs replicas on the same graph with couplings (and fields) of pairwise equal sign and stored operators legal for their own model; its executable premise swap_hyps is evaluated on every probed pair of the correspondence runs",
            "PARTIAL: per-replica stationarity between exchanges is C01-C03; the thread-parallel driver is tied to the serial one by C13; ergodicity / convergence of each rung is decided by the exact-diagonalisation oracle on ladders of 2-5 replicas",
        ],
        "trusted_base": ["Model/Tempering.v transcription validated by raw-tape replay of tempering steps and threshold bisection (c10)", "exact diagonalisation oracle"],
    },
}
