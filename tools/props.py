"""Per-property configuration of the check driver."""

PROPS = {
    "C16": {
        "harness_cmd": "c16",
        "property_files": ["C16.v"],
        "expected_theorems": [
            "C16_full_accepts_exactly", "C16_diag_accepts_exactly", "C16_full_offset_via_plain",
            "C16_diag_offset_via_plain", "C16_at_full", "C16_at_diag", "C16_constant_exact",
            "C16_constant_diag_exact_full", "C16_constant_diag_exact_diag", "C16_symmetry_exact_full",
            "C16_symmetry_exact_diag", "C16_accepted_weights_nonneg",
        ],
        "assumptions": [
            "the library's chained |a-b|<EPSILON comparisons are modelled as exact equality; generated entries are "
            "multiples of 1/8, so the two coincide on every generated input",
            "variable lists are distinct indices below the sampler's variable count (out-of-range variables are outside the property's quantifier)",
        ],
        "trusted_base": ["Model/Ham.v transcription of qmc_runner.rs Interaction::{new,new_offset,new_diagonal,new_diagonal_offset,at,sym_under_ising}"],
    },
}
