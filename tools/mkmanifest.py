#!/usr/bin/env python3
"""Regenerate MANIFEST.json from tools/props.py and tools/manifest_meta.py."""
import json, os, sys
ROOT = os.path.dirname(os.path.dirname(os.path.abspath(__file__)))
sys.path.insert(0, os.path.join(ROOT, "tools"))
from props import PROPS
from manifest_meta import META, NOT_APPLICABLE, HOOK_COMMITS

checks = []
for pid in sorted(PROPS):
    m = META[pid]
    checks.append({
        "property_id": pid,
        "quick_cmd": "./check %s --tier quick" % pid,
        "thorough_cmd": "./check %s --tier thorough" % pid,
        "evidence_file": "/verif/evidence/%s.json" % pid,
        "replay_cmd_template": "./check replay {path}",
        "engine": "coq-model+correspondence",
        "level_claimed": {"category": "proof", "text": m["text"], "design_ref": m.get("design_ref", "DESIGN.md §3")},
        "level_note": m["note"],
        "technique": m["technique"],
    })
man = {
    "version": 1,
    "setup_cmd": "./check setup",
    "hooks": {
        "guard": "--cfg qmc_verif",
        "enable": "RUSTFLAGS=\"--cap-lints warn --cfg qmc_verif\" cargo build --release --offline (in /verif/harness, path dependency on /repo)",
        "baseline_off_cmd": "cd /repo && cargo test --workspace --no-fail-fast --offline",
        "source_commits": HOOK_COMMITS,
        "add_only": True,
    },
    "engines": [{
        "name": "coq-model+correspondence", "path": "/verif/check",
        "serves_properties": sorted(PROPS),
        "kind_free_text": "Coq 8.16 theorems about a hand-written executable Gallina model (coq/Model, coq/Proofs, coq/Properties); "
                          "Rust harness (harness/) drives the real crate with a scripted RNG tape and Coq re-runs the model on the same inputs via vm_compute (coq/Check)",
    }],
    "checks": checks,
    "not_applicable": [{"property_id": k, "reason": v} for k, v in sorted(NOT_APPLICABLE.items()) if k not in PROPS],
    "notes": "Every check rebuilds the harness against /repo's working tree, rebuilds the Coq development, audits the property theorems "
             "(Print Assumptions, no Admitted/Axiom) and runs the correspondence. See DESIGN.md.",
}
json.dump(man, open(os.path.join(ROOT, "MANIFEST.json"), "w"), indent=1)
print("wrote MANIFEST.json with", len(checks), "checks;", len(man["not_applicable"]), "not yet claimed")
