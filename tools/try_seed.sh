#!/bin/bash
# try_seed.sh <seed-dir> <check-id>... : apply the seeded patch to /repo, run the checks, undo it.
SD="$1"; shift
git -C /repo apply "$SD/patch.diff" || exit 2
for c in "$@"; do
  OUT=$(/verif/check $c 2>&1 | grep -E "^(VIOLATION|OK|KNOWN)" | head -3)
  echo "[$c] $OUT"
done
git -C /repo checkout -- .
