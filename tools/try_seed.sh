#!/bin/bash
# try_seed.sh <seed-dir> <check-id>... : apply the seeded patch to /repo, run the checks, undo it.
# Evidence files and replays written while the patch is applied are not kept (evidence must come
# from the unchanged tree).  The undo runs from an EXIT trap (also on SIGPIPE / SIGINT) and the
# harness binary is rebuilt against the restored tree afterwards.
SD="$1"; shift
TMP=$(mktemp -d /verif/.cache/tryseed.XXXXXX)
cp -a /verif/evidence "$TMP/evidence"
ls /verif/replays > "$TMP/replays.before" 2>/dev/null
cleanup() {
  trap - EXIT PIPE INT TERM
  git -C /repo checkout -- . 2>/dev/null
  rm -rf /verif/evidence; mv "$TMP/evidence" /verif/evidence
  for f in $(ls /verif/replays 2>/dev/null); do grep -qx "$f" "$TMP/replays.before" || rm -f "/verif/replays/$f"; done
  rm -rf "$TMP"
  python3 /verif/tools/extract.py >/dev/null 2>&1
  (cd /verif/harness && CARGO_NET_OFFLINE=true CARGO_TARGET_DIR=/verif/.cache/target RUSTFLAGS="--cap-lints warn --cfg qmc_verif" cargo build --release --offline >/dev/null 2>&1)
}
git -C /repo apply "$SD/patch.diff" || { rm -rf "$TMP"; exit 2; }
trap cleanup EXIT PIPE INT TERM
for c in "$@"; do
  OUT=$(/verif/check $c 2>&1 | grep -E "^(VIOLATION|OK|KNOWN)" | head -3)
  echo "[$c] $OUT"
  R=$(echo "$OUT" | grep -o 'replay=[^ ]*' | head -1 | cut -d= -f2)
  if [ -n "$R" ] && [ -f "$R" ]; then python3 -c "
import json,sys
d=json.load(open('$R')); f=d.get('failure') or d.get('obligation')
print('     ->', json.dumps(f)[:400])"; fi
done
